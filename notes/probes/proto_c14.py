"""Prototype of the C14 pipeline state machine (note, not framework)."""
import sys, os, io, json, shutil, contextlib, time, collections, itertools
sys.path.insert(0, '/tmp/probe')
import numpy as np
import hypothesis
from hypothesis import settings, HealthCheck, strategies as st
from hypothesis.stateful import RuleBasedStateMachine, rule, initialize, invariant, precondition, Bundle, run_state_machine_as_test, consumes
from proto_plotgen import mesh_specs, build_mesh
from proto_e2e import coded, FakePool, quiet
from gen import write_plotfile, read_plotfile
import amr_kitchen.chef.chef as chefmod
for _m in ('close', 'join', 'clear', 'terminate'): setattr(FakePool, _m, lambda self: None)
chefmod.Pool = FakePool
from amr_kitchen.colander import Colander
from amr_kitchen.combine import combine
from amr_kitchen.chef import Chef
from amr_kitchen.taste import Taster
from amr_kitchen import PlotfileCooker
STATS = collections.Counter()
RECIPES = {  # name -> (source text, python function on dict name->array)
 'sum01': ('def recipe(fi, a):\n    """\n    NEWSUM\n    """\n    k = sorted(fi)\n    return a[..., fi[k[0]]] + 2.0 * a[..., fi[k[-1]]]\n', lambda d, names: {'NEWSUM': d[sorted(names)[0]] + 2.0 * d[sorted(names)[-1]]}),
 'two':   ('import numpy as np\ndef recipe(fi, a):\n    """\n    NEWA NEWB\n    """\n    k = sorted(fi)\n    return np.stack([a[..., fi[k[0]]] * 0.5, np.abs(a[..., fi[k[0]]]) + 1.0], axis=-1)\n', lambda d, names: {'NEWA': d[sorted(names)[0]] * 0.5, 'NEWB': np.abs(d[sorted(names)[0]]) + 1.0}),
}
class Pipelines(RuleBasedStateMachine):
    plts = Bundle('plts')
    def __init__(self):
        super().__init__(); self.n = 0; self.models = {}; self.root = f'/dev/shm/akv-c14-{os.getpid()}'; shutil.rmtree(self.root, ignore_errors=True); os.makedirs(self.root); os.chdir(self.root)
        for k, (src, _) in RECIPES.items(): open(f'{self.root}/{k}.py', 'w').write(src)
    def teardown(self): os.chdir('/'); shutil.rmtree(self.root, ignore_errors=True)
    def new(self): self.n += 1; return f'p{self.n}'
    @initialize(target=plts, ms=mesh_specs(ndims=3, max_cells=800), nf=st.integers(2, 4))
    def start(self, ms, nf):
        name = self.new(); levels = build_mesh(ms); fields = [f'f{i}' for i in range(nf)]
        spec = dict(ndims=3, fields=fields, time=0.375, geo_lo=[0.1, -0.2, 0.0], geo_hi=[1.1, 0.8, 0.016], n0=[n * ms['bf'] for n in ms['nb0']], levels=[dict(boxes=lv['boxes'], files=lv['files'], order=lv['order'], data=[coded(l, lo, hi, nf) for lo, hi in lv['boxes']]) for l, lv in enumerate(levels)])
        write_plotfile(name, spec)
        self.models[name] = dict(fields=fields, mesh=[[tuple(map(tuple, b)) for b in lv['boxes']] for lv in levels], data={(l, tuple(map(tuple, b))): {f: d[..., i] for i, f in enumerate(fields)} for l, lv in enumerate(spec['levels']) for b, d in zip(lv['boxes'], lv['data'])}, gen=0, root=name, meta=read_plotfile(name))
        self.verify(name, 'gen'); return name
    def verify(self, name, op):
        STATS['steps'] += 1; STATS['op:' + op] += 1
        m = self.models[name]
        assert quiet(lambda: bool(Taster(name, nofail=True, verbose=0, boxes_coordinates=True))), f'taste rejects output of {op}'
        o = read_plotfile(name)
        assert sorted(o['fields']) == sorted(m['fields']), (op, o['fields'], m['fields'])
        m['fields'] = list(o['fields'])
        assert o['max_level'] == len(m['mesh']) - 1
        ref = m['meta']
        assert o['time'] == ref['time'] and o['geo_lo'] == ref['geo_lo'] and o['geo_hi'] == ref['geo_hi'] and o['dx'] == ref['dx'][:o['max_level'] + 1], op
        for l in range(o['max_level'] + 1):
            assert [tuple(map(tuple, b)) for b in o['levels'][l]['idx']] == m['mesh'][l], (op, 'mesh', l)
            assert o['levels'][l]['phys'] == ref['levels'][l]['phys'], (op, 'bounds', l)
            for b, d in zip(o['levels'][l]['idx'], o['levels'][l]['data']):
                want = m['data'][(l, tuple(map(tuple, b)))]
                for i, f in enumerate(o['fields']):
                    assert np.array_equal(np.ascontiguousarray(d[..., i]).view('u8'), np.ascontiguousarray(want[f]).view('u8')), (op, 'data', l, b, f)
    @rule(target=plts, src=plts, data=st.data())
    def colander(self, src, data):
        m = self.models[src]; name = self.new()
        vars_ = data.draw(st.lists(st.sampled_from(m['fields'] + ['nope']), min_size=1, unique=True).filter(lambda v: any(x in m['fields'] for x in v)))
        lim = data.draw(st.one_of(st.none(), st.integers(0, len(m['mesh']) - 1)))
        c = quiet(Colander, src, limit_level=lim, output=name, variables=vars_); quiet(c.strain)
        kept = [v for v in vars_ if v in m['fields']]; L = len(m['mesh']) if lim is None else lim + 1
        self.models[name] = dict(fields=kept, mesh=m['mesh'][:L], data={k: {f: v[f] for f in kept} for k, v in m['data'].items() if k[0] < L}, gen=m['gen'] + 1, root=m['root'], meta=m['meta'])
        self.verify(name, 'colander'); return name
    @rule(target=plts, src=plts, rec=st.sampled_from(sorted(RECIPES)), data=st.data())
    def chef(self, src, rec, data):
        m = self.models[src]; name = self.new()
        if any(f in m['fields'] for f in ('NEWSUM', 'NEWA', 'NEWB')): return src
        kept = data.draw(st.lists(st.sampled_from(m['fields']), unique=True)); serial = data.draw(st.booleans())
        c = quiet(Chef, src, recipe=f'{self.root}/{rec}.py', outfile=name, serial=serial, kept_fields=' '.join(kept) if kept else None); quiet(c.cook)
        fn = RECIPES[rec][1]
        self.models[name] = dict(fields=kept + list(fn({f: np.zeros(1) for f in m['fields']}, m['fields'])), mesh=m['mesh'], data={k: {**{f: v[f] for f in kept}, **fn(v, m['fields'])} for k, v in m['data'].items()}, gen=m['gen'] + 1, root=m['root'], meta=m['meta'])
        self.verify(name, 'chef'); return name
    @rule(target=plts, a=plts, b=plts, data=st.data())
    def combine_(self, a, b, data):
        ma, mb = self.models[a], self.models[b]
        if ma['root'] != mb['root'] or ma['mesh'] != mb['mesh'] or a == b: return a
        v1 = data.draw(st.one_of(st.none(), st.lists(st.sampled_from(ma['fields']), min_size=1, unique=True)))
        v2 = data.draw(st.one_of(st.none(), st.lists(st.sampled_from(mb['fields']), min_size=1, unique=True)))
        s1 = v1 or ma['fields']; s2 = [f for f in (v2 or mb['fields']) if f not in s1]
        if not s2: return a
        name = self.new()
        quiet(combine, PlotfileCooker(a), PlotfileCooker(b), name, vars1=None if v1 is None else ' '.join(v1), vars2=v2)
        self.models[name] = dict(fields=s1 + s2, mesh=ma['mesh'], data={k: {**{f: ma['data'][k][f] for f in s1}, **{f: mb['data'][k][f] for f in s2}} for k in ma['data']}, gen=max(ma['gen'], mb['gen']) + 1, root=ma['root'], meta=ma['meta'])
        STATS['combine-with-ancestor-or-sibling'] += 1
        self.verify(name, 'combine'); return name
if __name__ == '__main__':
    t0 = time.time()
    try:
        run_state_machine_as_test(hypothesis.seed(int(os.environ.get('VERIF_SEED', '1')))(Pipelines), settings=settings(max_examples=int(sys.argv[1]) if len(sys.argv) > 1 else 40, stateful_step_count=5, deadline=None, database=None, suppress_health_check=list(HealthCheck)))
        print('held')
    except Exception as e:
        import traceback; traceback.print_exc(limit=2)
    print(dict(STATS), '%.1fs' % (time.time() - t0))
