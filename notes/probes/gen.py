"""Scratch plotfile writer + independent reader for probing (not framework code)."""
import os, re, struct, random
import numpy as np

FABHDR = "FAB ((8, (64 11 52 0 1 12 0 1023)),(8, (8 7 6 5 4 3 2 1)))"

def fab_header(lo, hi, nf):
    z = ",".join("0" for _ in lo)
    return (FABHDR + "((" + ",".join(map(str, lo)) + ") (" + ",".join(map(str, hi)) + ") (" + z + f")) {nf}\n").encode()

def fmt(x):
    return repr(float(x))

def write_plotfile(path, spec):
    """spec: dict(ndims, fields[list], time, geo_lo, geo_hi, n0 (cells lvl0 per dim),
       levels: list of dict(boxes=[(lo,hi)], files=[fileidx per box], order=[on-disk order perm per file], data=[array (shape..., nf)]))"""
    nd = spec['ndims']; nf = len(spec['fields']); L = len(spec['levels']) - 1
    os.makedirs(path)
    dx0 = [(spec['geo_hi'][d] - spec['geo_lo'][d]) / spec['n0'][d] for d in range(nd)]
    with open(os.path.join(path, 'Header'), 'w') as h:
        h.write("HyperCLaw-V1.1\n")
        h.write(f"{nf}\n")
        for f in spec['fields']: h.write(f + "\n")
        h.write(f"{nd}\n")
        h.write(fmt(spec['time']) + "\n")
        h.write(f"{L}\n")
        h.write(" ".join(fmt(x) for x in spec['geo_lo']) + " \n")
        h.write(" ".join(fmt(x) for x in spec['geo_hi']) + " \n")
        h.write(" ".join("2" for _ in range(max(L, spec.get('nfactors', L)))) + " \n")
        z = ",".join("0" for _ in range(nd))
        h.write(" ".join(f"(({z}) ({','.join(str(spec['n0'][d]*2**l-1) for d in range(nd))}) ({z}))" for l in range(L+1)) + " \n")
        h.write(" ".join(str(spec.get('step', 7)) for _ in range(L+1)) + " \n")
        for l in range(L+1):
            h.write(" ".join(fmt(dx0[d] / 2**l) for d in range(nd)) + " \n")
        h.write("0\n0\n")
        for l, lev in enumerate(spec['levels']):
            h.write(f"{l} {len(lev['boxes'])} {fmt(spec['time'])}\n")
            h.write(f"{spec.get('step', 7)}\n")
            for lo, hi in lev['boxes']:
                for d in range(nd):
                    a = spec['geo_lo'][d] + lo[d] * dx0[d] / 2**l
                    b = spec['geo_lo'][d] + (hi[d] + 1) * dx0[d] / 2**l
                    h.write(f"{fmt(a)} {fmt(b)}\n")
            h.write(f"Level_{l}/Cell\n")
    for l, lev in enumerate(spec['levels']):
        ld = os.path.join(path, f"Level_{l}"); os.makedirs(ld)
        nb = len(lev['boxes'])
        offsets = [None] * nb
        files = lev['files']
        for fi in sorted(set(files)):
            bids = [b for b in range(nb) if files[b] == fi]
            order = lev.get('order', {}).get(fi, list(range(len(bids))))
            with open(os.path.join(ld, f"Cell_D_{fi:05d}"), 'wb') as bf:
                for k in order:
                    b = bids[k]
                    offsets[b] = bf.tell()
                    lo, hi = lev['boxes'][b]
                    bf.write(fab_header(lo, hi, nf))
                    bf.write(np.asarray(lev['data'][b], dtype='<f8').flatten(order='F').tobytes())
        with open(os.path.join(ld, 'Cell_H'), 'w') as c:
            c.write("1\n1\n%d\n0\n" % nf)
            c.write(f"({nb} 0\n")
            z = ",".join("0" for _ in range(nd))
            for lo, hi in lev['boxes']:
                c.write(f"(({','.join(map(str, lo))}) ({','.join(map(str, hi))}) ({z}))\n")
            c.write(")\n")
            c.write(f"{nb}\n")
            for b in range(nb):
                c.write(f"FabOnDisk: Cell_D_{files[b]:05d} {offsets[b]}\n")
            c.write("\n")
            c.write(f"{nb},{nf}\n")
            for b in range(nb):
                d = np.asarray(lev['data'][b]).reshape(-1, nf)
                c.write(",".join(f"{v:.16e}" for v in np.min(d, axis=0)) + ",\n")
            c.write("\n")
            c.write(f"{nb},{nf}\n")
            for b in range(nb):
                d = np.asarray(lev['data'][b]).reshape(-1, nf)
                c.write(",".join(f"{v:.16e}" for v in np.max(d, axis=0)) + ",\n")

def tile(n, sizes, rng):
    """tile 1D extent n with chunks from sizes"""
    out = []; p = 0
    while p < n:
        cand = [s for s in sizes if p + s <= n and (n - p - s == 0 or n - p - s >= min(sizes))]
        s = rng.choice(cand) if cand else n - p
        out.append((p, p + s - 1)); p += s
    return out

def make_spec(rng, ndims=3, nlevels=2, n0=(8, 8, 8), sizes=(4, 8), nfields=3, refine_frac=0.5, nfiles=2, shuffle=True,
              origin=None, length=None, fields=None, fill='rand'):
    n0 = tuple(n0[:ndims])
    origin = origin or [0.0] * ndims
    length = length or [1.0] * ndims
    spec = dict(ndims=ndims, fields=fields or [f"f{i}" for i in range(nfields)], time=rng.random(),
                geo_lo=list(origin), geo_hi=[origin[d] + length[d] for d in range(ndims)], n0=n0, levels=[])
    nf = len(spec['fields'])
    # refined region tracked as set of coarse "blocks" at granularity = min(sizes) cells of that level
    g = min(sizes)
    region = None  # None = whole domain
    for l in range(nlevels):
        n = [n0[d] * 2**l for d in range(ndims)]
        if l == 0:
            tilings = [tile(n[d], sizes, rng) for d in range(ndims)]
            boxes = []
            import itertools
            for combo in itertools.product(*tilings):
                boxes.append((tuple(c[0] for c in combo), tuple(c[1] for c in combo)))
        else:
            # choose blocks of size g (level l cells) within parent region; parent blocks of size g at level l-1 => 2g at level l
            parents = spec['levels'][l-1]['boxes']
            cand = []
            import itertools
            for lo, hi in parents:
                rngs = [range(lo[d]*2, (hi[d]+1)*2, g) for d in range(ndims)]
                for c in itertools.product(*rngs):
                    cand.append(c)
            chosen = [c for c in cand if rng.random() < refine_frac]
            if not chosen: chosen = [rng.choice(cand)]
            # merge along x greedily into boxes up to max(sizes)
            chosen = sorted(set(chosen), key=lambda c: tuple(reversed(c)))
            boxes = []
            used = set()
            cs = set(chosen)
            for c in chosen:
                if c in used: continue
                ln = 1
                while ln * g < max(sizes) and tuple([c[0] + ln * g] + list(c[1:])) in cs and tuple([c[0] + ln * g] + list(c[1:])) not in used and rng.random() < 0.7:
                    ln += 1
                for k in range(ln): used.add(tuple([c[0] + k * g] + list(c[1:])))
                lo = c; hi = tuple([c[0] + ln * g - 1] + [c[d] + g - 1 for d in range(1, ndims)])
                boxes.append((tuple(lo), hi))
        if shuffle: rng.shuffle(boxes)
        nb = len(boxes)
        files = [rng.randrange(nfiles) for _ in range(nb)]
        order = {}
        for fi in set(files):
            k = files.count(fi); perm = list(range(k))
            if shuffle: rng.shuffle(perm)
            order[fi] = perm
        data = []
        for b, (lo, hi) in enumerate(boxes):
            shp = tuple(hi[d] - lo[d] + 1 for d in range(ndims)) + (nf,)
            if fill == 'rand':
                arr = np.array([rng.uniform(-10, 10) for _ in range(int(np.prod(shp)))]).reshape(shp)
            else:
                arr = fill(l, lo, hi, shp)
            data.append(arr)
        spec['levels'].append(dict(boxes=boxes, files=files, order=order, data=data))
    return spec

# ---------- independent reader -------------
def read_plotfile(path):
    out = {}
    with open(os.path.join(path, 'Header')) as h:
        lines = h.read().split('\n')
    i = 0
    out['version'] = lines[i]; i += 1
    nf = int(lines[i]); i += 1
    out['fields'] = lines[i:i+nf]; i += nf
    nd = int(lines[i]); i += 1
    out['ndims'] = nd
    out['time'] = float(lines[i]); i += 1
    L = int(lines[i]); i += 1
    out['max_level'] = L
    out['geo_lo'] = [float(x) for x in lines[i].split()]; i += 1
    out['geo_hi'] = [float(x) for x in lines[i].split()]; i += 1
    out['factors'] = lines[i].split(); i += 1
    doms = re.findall(r"\(\(([-\d,]+)\) \(([-\d,]+)\) \(([-\d,]+)\)\)", lines[i]); i += 1
    out['grid_sizes'] = [[int(x) + 1 for x in d[1].split(',')] for d in doms]
    out['steps'] = lines[i].split(); i += 1
    out['dx'] = []
    for l in range(L + 1):
        out['dx'].append([float(x) for x in lines[i].split()]); i += 1
    i += 2
    out['levels'] = []
    for l in range(L + 1):
        lv, nb, t = lines[i].split(); i += 1
        i += 1
        nb = int(nb)
        pb = []
        for b in range(nb):
            bb = []
            for d in range(nd):
                bb.append([float(x) for x in lines[i].split()]); i += 1
            pb.append(bb)
        cellpath = lines[i]; i += 1
        out['levels'].append(dict(phys=pb, cellpath=cellpath))
    for l in range(L + 1):
        ld = os.path.join(path, out['levels'][l]['cellpath'].split('/')[0])
        with open(os.path.join(ld, 'Cell_H')) as c:
            cl = c.read().split('\n')
        j = 2
        assert int(cl[j]) == nf, (cl[j], nf); j += 2
        nb = int(cl[j].split()[0].lstrip('(')); j += 1
        idx = []
        for b in range(nb):
            m = re.match(r"\(\(([-\d,]+)\) \(([-\d,]+)\) \(([-\d,]+)\)\)", cl[j]); j += 1
            idx.append(([int(x) for x in m.group(1).split(',')], [int(x) for x in m.group(2).split(',')]))
        assert cl[j] == ')', cl[j]; j += 1
        assert int(cl[j]) == nb; j += 1
        fod = []
        for b in range(nb):
            _, fn, off = cl[j].split(); j += 1
            fod.append((fn, int(off)))
        j += 1
        n1, n2 = cl[j].split(','); j += 1
        mins = []
        for b in range(int(n1)):
            mins.append([float(x) for x in cl[j].split(',')[:-1]]); j += 1
        j += 1
        n1, n2 = cl[j].split(','); j += 1
        maxs = []
        for b in range(int(n1)):
            maxs.append([float(x) for x in cl[j].split(',')[:-1]]); j += 1
        data = []
        for b in range(nb):
            with open(os.path.join(ld, fod[b][0]), 'rb') as bf:
                bf.seek(fod[b][1])
                hl = bf.readline().decode()
                m = re.search(r"\(\(([-\d,]+)\) \(([-\d,]+)\) \(([-\d,]+)\)\) (\d+)\n$", hl)
                lo = [int(x) for x in m.group(1).split(',')]; hi = [int(x) for x in m.group(2).split(',')]
                assert (lo, hi) == idx[b], (lo, hi, idx[b])
                n = int(m.group(4))
                shp = [hi[d] - lo[d] + 1 for d in range(nd)] + [n]
                raw = bf.read(int(np.prod(shp)) * 8)
                data.append(np.frombuffer(raw, '<f8').reshape(shp, order='F'))
        out['levels'][l].update(idx=idx, fod=fod, mins=mins, maxs=maxs, data=data)
    return out
