import sys, os, io, contextlib, shutil, random, hashlib, time, functools
sys.path.insert(0, '/tmp/probe')
import multiprocessing, multiprocessing.pool
from gen import *
RealPool = multiprocessing.pool.Pool
_ctx = multiprocessing.get_context('fork')
def _delayed(packed):
    f, delay, arg = packed
    time.sleep(delay)
    return f(arg)
class DelayPool:
    """real processes, chosen worker count, drawn per-task delays"""
    workers = 4; delays = None; calls = 0
    def __init__(self, *a, **k):
        self.p = _ctx.Pool(processes=DelayPool.workers)
    def _pack(self, f, it):
        tasks = list(it); DelayPool.calls += 1
        return [(f, DelayPool.delays(i, len(tasks)), t) for i, t in enumerate(tasks)]
    def map(self, f, it): return self.p.map(_delayed, self._pack(f, it), chunksize=1)
    def imap(self, f, it): return self.p.imap(_delayed, self._pack(f, it), chunksize=1)
    def imap_unordered(self, f, it): return self.p.imap_unordered(_delayed, self._pack(f, it), chunksize=1)
    def __enter__(self): return self
    def __exit__(self, *a): self.p.terminate(); return False
    def close(self): self.p.close()
    def join(self): self.p.join()
    def terminate(self): self.p.terminate()
    def __del__(self):
        try: self.p.terminate()
        except Exception: pass
multiprocessing.Pool = DelayPool
from amr_kitchen.colander import Colander
from amr_kitchen.taste import Taster
from amr_kitchen import PlotfileCooker
def quiet(f, *a, **k):
    buf = io.StringIO()
    with contextlib.redirect_stdout(buf), contextlib.redirect_stderr(buf):
        return f(*a, **k)
def treehash(d):
    h = hashlib.sha256()
    for r, ds, fs in sorted(os.walk(d)):
        ds.sort()
        for f in sorted(fs):
            h.update(os.path.relpath(os.path.join(r, f), d).encode()); h.update(open(os.path.join(r, f), 'rb').read())
    return h.hexdigest()
os.makedirs('/dev/shm/akvproto', exist_ok=True); os.chdir('/dev/shm/akvproto')
rng = random.Random(1)
spec = make_spec(rng, nlevels=2, nfields=3, n0=(8, 8, 8), sizes=(4, 8), nfiles=4)
shutil.rmtree('src', ignore_errors=True); write_plotfile('src', spec)
hashes = set(); t0 = time.time(); n = 0
for w in (1, 2, 3, 4, 8, 16):
    for trial in range(3):
        r2 = random.Random(100 * w + trial)
        DelayPool.workers = w; DelayPool.delays = lambda i, n, r2=r2: r2.choice([0, 0.002, 0.01, 0.02])
        shutil.rmtree('out', ignore_errors=True); c = quiet(Colander, 'src', output='out', variables=['f2', 'f0']); quiet(c.strain)
        hashes.add(treehash('out')); ok = quiet(lambda: bool(Taster('out', nofail=True, verbose=0)))
        boxes = PlotfileCooker('src')[1][1][:]
        n += 1
print('runs', n, 'distinct output hashes', len(hashes), 'taste', ok, 'boxes', len(boxes), 'time %.1fs' % (time.time() - t0))
import subprocess; print('leftover children:', subprocess.run("ps --ppid %d --no-headers | wc -l" % os.getpid(), shell=True, capture_output=True, text=True).stdout.strip())
