import numpy as np
def recipe(field_indexes, box_array):
    """
    newA newB
    """
    a = box_array[:, :, :, field_indexes["f0"]] * 2.0
    b = box_array[:, :, :, field_indexes["f1"]] - 1.0
    return np.stack([a, b], axis=-1)
