import random, shutil, os, sys, numpy as np, itertools, io, contextlib, copy
sys.path.insert(0, '/tmp/probe')
from gen import *
from amr_kitchen.mandoline import Mandoline
def quiet(f, *a, **k):
    buf = io.StringIO()
    with contextlib.redirect_stdout(buf), contextlib.redirect_stderr(buf):
        return f(*a, **k)
os.chdir('/tmp/probe')
rng = random.Random(int(sys.argv[1]) if len(sys.argv) > 1 else 3)
origin = [2.0, -1.0, 0.5]; length = [1.0, 2.0, 1.0]; n0 = (8, 8, 8)
def mkfill(cn):
    def fill(l, lo, hi, shp):
        arr = np.zeros(shp)
        dx = [length[d] / (n0[d] * 2**l) for d in range(3)]
        idx = np.meshgrid(*[np.arange(lo[d], hi[d] + 1) for d in range(3)], indexing='ij')
        c = origin[cn] + (idx[cn] + 0.5) * dx[cn]
        arr[..., 0] = 3.0 + 2.0 * c          # affine along normal
        arr[..., 1] = 1000 * l + idx[(cn+1)%3] * 7 + idx[(cn+2)%3] * 0.01   # const along normal, level tagged
        return arr
    return fill
import numpy as _np
real_empty = _np.empty
def poisoned(val):
    def e(shape, dtype=float, order='C', **kw):
        a = real_empty(shape, dtype=dtype, order=order)
        try: a.fill(val)
        except Exception: pass
        return a
    return e
for cn in range(3):
    spec = make_spec(rng, nlevels=3, nfields=2, n0=n0, sizes=(4, 8), origin=origin, length=length, fill=mkfill(cn), refine_frac=0.4)
    shutil.rmtree('m1', ignore_errors=True); write_plotfile('m1', spec)
    lo = origin[cn]; hi = origin[cn] + length[cn]
    dxf = length[cn] / (n0[cn] * 4)
    positions = {'default': None, 'lowface': lo, 'hiface': hi, 'first_half': lo + dxf/4, 'centre_f': lo + dxf*10.5, 'face_f': lo + dxf*11, 'rand': lo + length[cn]*0.37123,
                 'boxface_mid': lo + length[cn]/2, 'gap+': lo + length[cn]/2 + dxf/4, 'gap-': lo + length[cn]/2 - dxf/4, 'gap_coarse+': lo + length[cn]/2 + dxf*1.5, 'last_half': hi - dxf/4}
    for name, pos in positions.items():
        res = []
        for pv in (1.5e300, -7.25e-300):
            np.empty = poisoned(pv)
            try:
                m = quiet(Mandoline, 'm1', fields=['f0', 'f1', 'grid_level'], serial=True, verbose=0)
                out = quiet(m.slice, normal=cn, pos=pos, fformat='return')
                res.append(out)
            except Exception as e:
                res.append(f"EXC {type(e).__name__}: {str(e)[:100]}")
            finally:
                np.empty = real_empty
        if isinstance(res[0], str):
            print(cn, name, pos, res[0]); continue
        p = res[0]['slice_pos']
        dep = [k for k in ('f0', 'f1', 'grid_level') if not np.array_equal(res[0][k], res[1][k])]
        affine_err = np.max(np.abs(res[0]['f0'] - (3.0 + 2.0 * p)))
        print(cn, f"{name:12s} pos={p:.5f} uninit-dependent={dep} affine_maxerr={affine_err:.3g} gl={np.unique(res[0]['grid_level'])[:6]}")
