def recipe(field_indexes, box_array, sol_array):
    """
    rho_ct
    """
    return sol_array.density
