import random, shutil, os, sys, numpy as np, io, contextlib
sys.path.insert(0, '/tmp/probe')
from gen import *
from amr_kitchen import PlotfileCooker
from amr_kitchen.mandoline import Mandoline
from amr_kitchen.combine import combine
from amr_kitchen.chef import Chef
def quiet(f, *a, **k):
    buf = io.StringIO()
    with contextlib.redirect_stdout(buf), contextlib.redirect_stderr(buf):
        return f(*a, **k)
shutil.rmtree('/tmp/probe/w13', ignore_errors=True); os.makedirs('/tmp/probe/w13'); os.chdir('/tmp/probe/w13')
rng = random.Random(9)
spec = make_spec(rng, nlevels=2, nfields=2, n0=(8, 8, 8), sizes=(4, 8), nfiles=1, shuffle=False, fields=['density', 'b'])
write_plotfile('plt00100', spec)
spec2 = dict(spec); spec2['fields'] = ['c', 'd']; write_plotfile('plt00200', spec2)
def tree(d): return sorted(os.path.join(r, f) for r, _, fs in os.walk(d) for f in fs)
t1 = tree('plt00100'); t2 = tree('plt00200')
m = quiet(Mandoline, 'plt00100/', serial=True, verbose=0); quiet(m.slice, normal=0, fformat='array')
print('mandoline trailing slash: new in input:', set(tree('plt00100')) - set(t1), 'cwd:', [f for f in os.listdir('.') if f.startswith('S')])
for f in set(tree('plt00100')) - set(t1): os.remove(f)
m = quiet(Mandoline, 'plt00100', serial=True, verbose=0); quiet(m.slice, normal=0, fformat='array')
print('mandoline plain: new in input:', set(tree('plt00100')) - set(t1), 'cwd:', [f for f in os.listdir('.') if f.startswith('S')])
m = quiet(Mandoline, os.path.abspath('plt00100'), serial=True, verbose=0); quiet(m.slice, normal=0, fformat='plotfile')
print('mandoline abs plotfile fmt: cwd:', sorted(os.listdir('.')))
h1 = open('plt00200/Header').read()
try:
    quiet(combine, PlotfileCooker('plt00100/'), PlotfileCooker('plt00200'))
    print('combine trailing slash on p1: cwd:', sorted(os.listdir('.')), 'input2 header changed:', open('plt00200/Header').read() != h1, set(tree('plt00200')) - set(t2))
except Exception as e:
    print('combine EXC', type(e).__name__, str(e)[:100], 'input2 header changed:', open('plt00200/Header').read() != h1)
