import random, shutil, os, sys, numpy as np, io, contextlib, pickle
sys.path.insert(0, '/tmp/probe')
from gen import *
from amr_kitchen import PlotfileCooker
from amr_kitchen.menu import Menu
import amr_kitchen.minuterie as minuterie, amr_kitchen.marinate as marinate
def cap(f, *a, **k):
    buf = io.StringIO()
    with contextlib.redirect_stdout(buf):
        f(*a, **k)
    return buf.getvalue()
os.chdir('/tmp/probe')
rng = random.Random(4)
for fields in (['temp', 'Y(H2)', 'Y(O2)', 'density', 'phi'], ['temp', 'density', 'phi', 'phi2'], ['a', 'banana', 'Y(H2)'], ['temp', 'density', 'x_velocity', 'Y(H2)'], ['we(ird', 'zzz', 'Y(H)']):
    spec = make_spec(rng, nlevels=2, nfields=len(fields), n0=(8, 8, 8), sizes=(4, 8), nfiles=2, refine_frac=0.4, fields=fields)
    shutil.rmtree('plt_h', ignore_errors=True); write_plotfile('plt_h', spec)
    print('=====', fields)
    for kw in ({}, {'min_max': True}, {'finest_lv': True}):
        try:
            out = cap(Menu, 'plt_h', **kw)
            print(kw, '\n' + out[:1500])
        except Exception as e:
            print(kw, 'EXC', type(e).__name__, str(e)[:100])
sys.argv = ['minuterie', 'plt_h']; print(cap(minuterie.main), spec['time'])
sys.argv = ['marinate', 'plt_h']; marinate.main(); p = pickle.load(open('plt_h.pkl', 'rb')); print(type(p), p.fields, np.array_equal(p[0][0][0], PlotfileCooker('plt_h')[0][0][0]))
sys.argv = ['marinate', 'plt_h/']; marinate.main(); print('inside input:', os.listdir('plt_h'))
