import sys, os, io, time, shutil, contextlib
sys.path.insert(0, '/tmp/probe')
import numpy as np
from gen import write_plotfile, read_plotfile
from proto_e2e import coded, quiet
from amr_kitchen.mandoline import Mandoline
from amr_kitchen.taste import Taster
def mk(nbx, nby, foot, thick, nf):
    boxes = [((i * foot, j * foot, 0), ((i + 1) * foot - 1, (j + 1) * foot - 1, thick - 1)) for j in range(nby) for i in range(nbx)]
    spec = dict(ndims=3, fields=[f'f{i}' for i in range(nf)], time=0.5, geo_lo=[0., 0., 0.], geo_hi=[1., 1., 0.25], n0=[nbx * foot, nby * foot, thick],
                levels=[dict(boxes=boxes, files=[0] * len(boxes), order={}, data=[coded(0, lo, hi, nf) for lo, hi in boxes])])
    return spec
for nbx, nby, foot, nf in [(2, 2, 32, 31), (5, 1, 64, 16), (11, 1, 64, 9), (2, 1, 64, 31), (1, 1, 64, 31)]:
    shutil.rmtree('big', ignore_errors=True); shutil.rmtree('bigo', ignore_errors=True)
    t0 = time.time(); spec = mk(nbx, nby, foot, 2, nf); write_plotfile('big', spec); t1 = time.time()
    size = nbx * nby * foot * foot * nf * 8
    try:
        m = quiet(Mandoline, 'big', fields=spec['fields'], serial=True, verbose=0); quiet(m.slice, normal=2, pos=0.1, fformat='plotfile', outfile='bigo'); t2 = time.time()
        ok = quiet(lambda: bool(Taster('bigo', nofail=True, verbose=0))); o = read_plotfile('bigo')
        print(f'boxes {nbx*nby} slice {size/1e6:.2f}MB write {t1-t0:.2f}s tool {t2-t1:.2f}s taste {ok} out boxes {len(o["levels"][0]["idx"])} files {sorted(set(f for f,_ in o["levels"][0]["fod"]))}')
    except Exception as e:
        print(f'boxes {nbx*nby} slice {size/1e6:.2f}MB EXC {type(e).__name__} {str(e)[:80]}')
