import os, numpy as np
from gen import fab_header, fmt
def write_level_hdr(path, nf, ng, boxes, fod, data, nodal=False):
    nb = len(boxes)
    with open(path, 'w') as c:
        c.write(f"1\n1\n{nf}\n{ng}\n({nb} 0\n")
        for lo, hi in boxes:
            if nodal: c.write(f"(({','.join(map(str, lo))}) ({','.join(str(h+1) for h in hi)}) (1,1,1))\n")
            else: c.write(f"(({','.join(map(str, lo))}) ({','.join(map(str, hi))}) (0,0,0))\n")
        c.write(")\n%d\n" % nb)
        for fn, off in fod: c.write(f"FabOnDisk: {fn} {off}\n")
        c.write("\n%d,%d\n" % (nb, nf))
        for d in data: c.write(",".join(f"{v:.16e}" for v in d.reshape(-1, nf).min(axis=0)) + ",\n")
        c.write("\n%d,%d\n" % (nb, nf))
        for d in data: c.write(",".join(f"{v:.16e}" for v in d.reshape(-1, nf).max(axis=0)) + ",\n")
def write_checkpoint(path, rng, levels, nspec, geo_lo, geo_hi, time, step=5, nghost=3, nfiles=2, int_line=False):
    """levels: list of list of (lo,hi)"""
    os.makedirs(path)
    L = len(levels) - 1
    nstate = 4 + nspec + 3
    with open(os.path.join(path, 'Header'), 'w') as h:
        h.write("Checkpoint version: 1\n%d\n%d\n" % (L, step))
        if int_line: h.write("3\n")
        h.write(fmt(time) + "\n" + fmt(1.25e-7) + "\n" + fmt(1.5e-7) + "\n")
        h.write(" ".join(fmt(x) for x in geo_lo) + " \n" + " ".join(fmt(x) for x in geo_hi) + " \n")
        for boxes in levels:
            h.write(f"({len(boxes)} 0\n")
            for lo, hi in boxes: h.write(f"(({','.join(map(str, lo))}) ({','.join(map(str, hi))}) (0,0,0))\n")
            h.write(")\n")
        h.write("101325\n0\n0\n")
        for i in range(nstate + 1): h.write(fmt(0.5 + i) + "\n")
    truth = []
    for l, boxes in enumerate(levels):
        ld = os.path.join(path, f"Level_{l}"); os.makedirs(ld)
        lt = {}
        for sub, nf, ng, nodal in [('state', nstate, nghost, False), ('gradp', 3, 0, False), ('I_R', nspec, 0, False), ('divU', 1, 1, False), ('p', 1, 1, True)]:
            nb = len(boxes)
            files = [rng.randrange(nfiles) for _ in range(nb)]
            fod = [None] * nb; data = [None] * nb
            for fi in sorted(set(files)):
                bids = [b for b in range(nb) if files[b] == fi]; rng.shuffle(bids)
                with open(os.path.join(ld, f"{sub}_D_{fi:05d}"), 'wb') as bf:
                    for b in bids:
                        lo, hi = boxes[b]
                        glo = [x - ng for x in lo]; ghi = [x + ng + (1 if nodal else 0) for x in hi]
                        shp = [ghi[d] - glo[d] + 1 for d in range(3)] + [nf]
                        arr = np.array([rng.uniform(0.1, 2.0) for _ in range(int(np.prod(shp)))]).reshape(shp)
                        fod[b] = (f"{sub}_D_{fi:05d}", bf.tell())
                        hdr = fab_header(glo, ghi, nf)
                        if nodal: hdr = hdr.replace(b"(0,0,0))", b"(1,1,1))")
                        bf.write(hdr); bf.write(arr.flatten(order='F').tobytes())
                        data[b] = arr
            write_level_hdr(os.path.join(ld, f"{sub}_H"), nf, ng, boxes, fod, data, nodal)
            lt[sub] = (data, ng)
        truth.append(lt)
    return truth
