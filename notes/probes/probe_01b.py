import random, shutil, os, sys, numpy as np, io, contextlib, struct
sys.path.insert(0, '/tmp/probe')
exec(open('/tmp/probe/proto_pool.py').read().split("def quiet")[0].replace("from hypothesis import", "#"))
from gen import *
from amr_kitchen import PlotfileCooker
from amr_kitchen.taste import Taster
def quiet(f, *a, **k):
    buf = io.StringIO()
    with contextlib.redirect_stdout(buf), contextlib.redirect_stderr(buf):
        return f(*a, **k)
SchedPool.log = []; SchedPool.chooser = lambda n, kind: list(range(n))
os.chdir('/dev/shm/akvproto')
rng = random.Random(2)
specials = [float('nan'), float('inf'), -float('inf'), 5e-324, -0.0, struct.unpack('<d', struct.pack('<Q', 0x7ff8dead0000beef))[0], struct.unpack('<d', struct.pack('<Q', 0x7ff0000000000001))[0], 1.7976931348623157e308]
def fill(l, lo, hi, shp):
    a = np.array([rng.choice(specials + [rng.uniform(-1, 1)] * 4) for _ in range(int(np.prod(shp)))]).reshape(shp); return a
for nd in (2, 3):
    spec = make_spec(rng, ndims=nd, nlevels=2, nfields=3, n0=(8, 8, 8), sizes=(4, 8), nfiles=2, fill=fill)
    shutil.rmtree('sp', ignore_errors=True)
    with np.errstate(all='ignore'): write_plotfile('sp', spec)
    r = read_plotfile('sp'); pck = PlotfileCooker('sp')
    ok = all(np.array_equal(pck[:][l][b].view('u8'), r['levels'][l]['data'][b].view('u8')) for l in range(2) for b in range(len(r['levels'][l]['idx'])))
    print(nd, 'D bit-exact incl. NaN payloads / denormals via [:] :', ok, 'taste', quiet(lambda: bool(Taster('sp', nofail=True, verbose=0))))
    shutil.rmtree('spo', ignore_errors=True); c = quiet(Colander, 'sp', output='spo', variables=['f2', 'f0']); quiet(c.strain); o = read_plotfile('spo')
    print('   colander bit-exact:', all(np.array_equal(o['levels'][l]['data'][b].view('u8'), np.ascontiguousarray(r['levels'][l]['data'][b][..., [2, 0]]).view('u8')) for l in range(2) for b in range(len(r['levels'][l]['idx']))), 'taste', quiet(lambda: bool(Taster('spo', nofail=True, verbose=0))))
    pm = PlotfileCooker('spo', maxmins=True); print('   maxmins parse with nan/inf ok', pm.cells[0]['mins']['f2'][:2])
# box selector forms
pck = PlotfileCooker('sp'); nb = len(r['levels'][1]['idx'])
def want(sel): return [r['levels'][1]['data'][b][..., 1] for b in sel]
forms = {'int 0': 0, 'int -1': -1, 'np.int64(2)': np.int64(2), 'slice 1:': slice(1, None), 'slice ::-1': slice(None, None, -1), 'list [2,0]': [2, 0], 'list neg [-1,0]': [-1, 0], 'arr int32': np.array([1, 0], dtype=np.int32),
         'bool mask': np.arange(nb) % 2 == 0, 'py bool list': [i % 3 == 0 for i in range(nb)], 'empty list': [], 'tuple (0,1)': (0, 1), 'oob int': nb, 'oob list': [0, nb], 'short mask': np.array([True, False]), 'dup list': [1, 1]}
for name, sel in forms.items():
    try:
        got = pck[1][1][sel]
    except Exception as e:
        print(f'{name:18s} RAISES {type(e).__name__}: {str(e)[:70]}'); continue
    if got is None: print(f'{name:18s} returns None'); continue
    if isinstance(sel, (int, np.integer)): exp = r['levels'][1]['data'][range(nb)[sel]][..., 1]; print(f'{name:18s} ok={np.array_equal(got, exp, equal_nan=True)}'); continue
    try:
        ids = list(np.arange(nb)[sel]) if not isinstance(sel, tuple) else None
        exp = want(ids); print(f'{name:18s} n={len(got)} ok={len(got) == len(exp) and all(np.array_equal(a, b, equal_nan=True) for a, b in zip(got, exp))}')
    except Exception as e:
        print(f'{name:18s} got {type(got).__name__} len {len(got) if hasattr(got, "__len__") else "?"}; oracle cannot interpret ({type(e).__name__})')
