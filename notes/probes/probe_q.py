import random, shutil, os, sys, numpy as np, io, contextlib
sys.path.insert(0, '/tmp/probe')
from gen import *
from amr_kitchen import PlotfileCooker
def quiet(f, *a, **k):
    buf = io.StringIO()
    with contextlib.redirect_stdout(buf), contextlib.redirect_stderr(buf):
        return f(*a, **k)
os.chdir('/tmp/probe')
rng = random.Random(4)
for origin, length in [([0,0,0],[1,1,1]), ([0,0,0],[1,2,0.5]), ([2.0,-1.0,0.5],[1,1,1]), ([2.0,-1.0,0.5],[1,2,0.5])]:
    spec = make_spec(rng, nlevels=3, nfields=3, n0=(8, 8, 8), sizes=(4, 8), nfiles=2, refine_frac=0.4, origin=origin, length=length)
    shutil.rmtree('q', ignore_errors=True); write_plotfile('q', spec)
    r = read_plotfile('q'); pck = PlotfileCooker('q')
    L = 2
    # covering level map
    n_ok = n_bad = n_exc = 0; ex = None
    for trial in range(60):
        # choose level & box & interior cell, must not be covered by finer level
        l = rng.randrange(3); b = rng.randrange(len(r['levels'][l]['idx'])); lo, hi = r['levels'][l]['idx'][b]
        if any(hi[d] - lo[d] < 2 for d in range(3)): continue
        cell = [rng.randrange(lo[d] + 1, hi[d]) for d in range(3)]
        if l < L and any(all(flo[d] <= cell[d]*2 <= fhi[d] for d in range(3)) for flo, fhi in r['levels'][l+1]['idx']): continue
        pt = [r['geo_lo'][d] + (cell[d] + 0.5) * r['dx'][l][d] for d in range(3)]
        want = r['levels'][l]['data'][b][cell[0]-lo[0], cell[1]-lo[1], cell[2]-lo[2], :]
        try:
            got1 = quiet(pck[1], *pt); gotm = quiet(pck[[0, 2]], *pt)
            ok = np.allclose(np.ravel(got1), want[1], rtol=1e-9, atol=1e-12) and np.allclose(np.ravel(gotm), want[[0, 2]], rtol=1e-9, atol=1e-12)
            if ok: n_ok += 1
            else:
                n_bad += 1; ex = ex or (l, pt, np.ravel(got1), want[1])
        except Exception as e:
            n_exc += 1; ex = ex or (l, pt, type(e).__name__, str(e)[:80])
    print('origin', origin, 'length', length, 'ok', n_ok, 'bad', n_bad, 'exc', n_exc, ex)
    # outside domain
    for pt in ([r['geo_lo'][0] - 0.1, r['geo_lo'][1] + 0.1, r['geo_lo'][2] + 0.1], [r['geo_hi'][0] + 10, r['geo_hi'][1] + 10, r['geo_hi'][2] + 10]):
        try:
            print('  outside ->', quiet(pck[1], *pt))
        except Exception as e:
            print('  outside raises', type(e).__name__, str(e)[:60])
