import random, shutil, os, sys, numpy as np, io, contextlib, re
sys.path.insert(0, '/tmp/probe')
from gen import *
import multiprocessing
class FakePool:
    def __init__(self, *a, **k): pass
    def map(self, f, it): return [f(x) for x in it]
    def imap(self, f, it): return iter([f(x) for x in it])
    imap_unordered = imap
    def __enter__(self): return self
    def __exit__(self, *a): pass
multiprocessing.Pool = FakePool
from amr_kitchen.taste import Taster
from amr_kitchen import PlotfileCooker
def verdict(path, **kw):
    buf = io.StringIO()
    with contextlib.redirect_stdout(buf), contextlib.redirect_stderr(buf):
        try:
            a = bool(Taster(path, nofail=True, verbose=0, **kw))
        except BaseException as e:
            a = f"RAISED-in-nofail {type(e).__name__}"
        try:
            Taster(path, verbose=0, **kw); b = True
        except Exception as e:
            b = False
    return a, b
os.chdir('/tmp/probe')
rng = random.Random(9)
for nd in (3, 2):
    spec = make_spec(rng, ndims=nd, nlevels=2, nfields=2, n0=(8, 8, 8), sizes=(4, 8), nfiles=2, refine_frac=0.5)
    shutil.rmtree('good', ignore_errors=True); write_plotfile('good', spec)
    print(nd, 'good ->', verdict('good'), [len(l['boxes']) for l in spec['levels']])
    results = {}
    def trial(name, fn):
        shutil.rmtree('bad', ignore_errors=True); shutil.copytree('good', 'bad'); fn('bad')
        v = verdict('bad'); results.setdefault(name, []).append(v)
    r = read_plotfile('good')
    for l in range(2):
        ld = f'Level_{l}'
        files = sorted(set(f for f, o in r['levels'][l]['fod']))
        for fn_ in files:
            size = os.path.getsize(f'good/{ld}/{fn_}')
            trial('missing file', lambda p: os.remove(f'{p}/{ld}/{fn_}'))
            for k in (1, 8, 100):
                trial(f'truncate {k}', lambda p: os.truncate(f'{p}/{ld}/{fn_}', size - k))
                def ext(p):
                    with open(f'{p}/{ld}/{fn_}', 'ab') as f: f.write(b'\0' * k)
                trial(f'extend {k}', ext)
            offs = sorted(o for f, o in r['levels'][l]['fod'] if f == fn_)
            for o in offs:
                for k in (8, 3):
                    def ins(p):
                        d = open(f'{p}/{ld}/{fn_}', 'rb').read(); pos = o + 120
                        open(f'{p}/{ld}/{fn_}', 'wb').write(d[:pos] + b'\1' * k + d[pos:])
                    trial(f'insert {k}', ins)
                    def rem(p):
                        d = open(f'{p}/{ld}/{fn_}', 'rb').read(); pos = o + 120
                        open(f'{p}/{ld}/{fn_}', 'wb').write(d[:pos] + d[pos + k:])
                    trial(f'remove {k}', rem)
        nb = len(r['levels'][l]['idx'])
        for b in range(nb):
            fn_, o = r['levels'][l]['fod'][b]
            def fabidx(p):
                d = open(f'{p}/{ld}/{fn_}', 'rb').read()
                end = d.index(b'\n', o); h = d[o:end].decode()
                lo, hi = r['levels'][l]['idx'][b]
                h2 = h.replace("(" + ",".join(map(str, lo)) + ") (" + ",".join(map(str, hi)) + ")", "(" + ",".join(str(x + 1) for x in lo) + ") (" + ",".join(str(x + 1) for x in hi) + ")")
                assert h2 != h
                open(f'{p}/{ld}/{fn_}', 'wb').write(d[:o] + h2.encode() + d[end:])
            trial('FAB idx shift same shape', fabidx)
            def fabnc(p):
                d = open(f'{p}/{ld}/{fn_}', 'rb').read()
                end = d.index(b'\n', o); h = d[o:end]
                open(f'{p}/{ld}/{fn_}', 'wb').write(d[:o] + h[:-1] + b'3' + d[end:])
            trial('FAB ncomp', fabnc)
            def cellidx(p):
                t = open(f'{p}/{ld}/Cell_H').read().split('\n'); i = 5 + b
                lo, hi = r['levels'][l]['idx'][b]; z = ",".join("0" * 1 for _ in lo)
                t[i] = f"(({','.join(str(x + 1) for x in lo)}) ({','.join(str(x + 1) for x in hi)}) ({z}))"
                open(f'{p}/{ld}/Cell_H', 'w').write('\n'.join(t))
            trial('Cell_H idx shift', cellidx)
            def delbox(p):
                t = open(f'{p}/{ld}/Cell_H').read().split('\n'); del t[5 + b]; open(f'{p}/{ld}/Cell_H', 'w').write('\n'.join(t))
            trial('Cell_H delete box line', delbox)
            def delfod(p):
                t = open(f'{p}/{ld}/Cell_H').read().split('\n'); del t[5 + nb + 2 + b]; open(f'{p}/{ld}/Cell_H', 'w').write('\n'.join(t))
            trial('Cell_H delete FabOnDisk line', delfod)
            def garb(p):
                t = open(f'{p}/{ld}/Cell_H').read().split('\n'); t[5 + b] = t[5 + b].replace(',', ';', 1); open(f'{p}/{ld}/Cell_H', 'w').write('\n'.join(t))
            trial('Cell_H unparsable idx', garb)
            def fodoff(delta):
                def f(p):
                    t = open(f'{p}/{ld}/Cell_H').read().split('\n'); i = 5 + nb + 2 + b
                    a = t[i].split(); a[-1] = str(int(a[-1]) + delta); t[i] = ' '.join(a); open(f'{p}/{ld}/Cell_H', 'w').write('\n'.join(t))
                return f
            trial('offset +200 (into data)', fodoff(200)); trial('offset +5 (in hdr prefix)', fodoff(5)); trial('offset beyond EOF', fodoff(10**7))
            def fodfile(p):
                t = open(f'{p}/{ld}/Cell_H').read().split('\n'); i = 5 + nb + 2 + b
                a = t[i].split(); a[1] = 'Cell_D_00077'; t[i] = ' '.join(a); open(f'{p}/{ld}/Cell_H', 'w').write('\n'.join(t))
            trial('FabOnDisk nonexistent file', fodfile)
            def fodother(p):
                t = open(f'{p}/{ld}/Cell_H').read().split('\n'); i = 5 + nb + 2 + b; j = 5 + nb + 2 + (b + 1) % nb
                t[i] = t[j]; open(f'{p}/{ld}/Cell_H', 'w').write('\n'.join(t))
            if nb > 1: trial("FabOnDisk -> other box's FAB", fodother)
    for k, v in results.items():
        acc = [x for x in v if x[0] is True or x[1] is True or isinstance(x[0], str)]
        print(f"  {k:34s} sites {len(v):3d} accepted/odd {len(acc)} {acc[:2]}")
