import sys, os, traceback
sys.path.insert(0, '/tmp/probe')
os.chdir('/tmp/probe')
from amr_kitchen.chef import Chef
import shutil
shutil.rmtree('oC', ignore_errors=True)
try:
    c = Chef('chB', recipe='HRR', outfile='oC', serial=True, mech='/repo/test_assets/drm19.yaml', pressure=2.0); c.cook()
except Exception:
    traceback.print_exc()
from gen import *
import numpy as np, cantera as ct
o = read_plotfile('oC'); r = read_plotfile('chB')
print(o['fields'], [d.shape for d in o['levels'][0]['data']][:3], [d.shape for d in r['levels'][0]['data']][:3])
print(open('oC/Level_0/Cell_H').read()[:400])
