import random, shutil, os, sys, numpy as np, io, contextlib, re
sys.path.insert(0, '/tmp/probe')
exec(open('/tmp/probe/proto_pool.py').read().split("def quiet")[0].replace("from hypothesis import", "#"))
from gen import *
from amr_kitchen.taste import Taster
from amr_kitchen import PlotfileCooker
SchedPool.log = []; SchedPool.chooser = lambda n, kind: list(range(n))
def quiet(f, *a, **k):
    buf = io.StringIO()
    with contextlib.redirect_stdout(buf), contextlib.redirect_stderr(buf):
        return f(*a, **k)
os.chdir('/dev/shm/akvproto')
rng = random.Random(9)
spec = make_spec(rng, ndims=3, nlevels=2, nfields=2, n0=(8, 8, 8), sizes=(4, 8), nfiles=2, refine_frac=0.5)
shutil.rmtree('good', ignore_errors=True); write_plotfile('good', spec); r = read_plotfile('good')
def scan(path):
    """independent structural scan: list of (lo,hi,ncomp,payload bytes) by walking FAB headers"""
    d = open(path, 'rb').read(); out = []; pos = 0
    while pos < len(d):
        end = d.index(b'\n', pos); m = re.search(rb"\(\(([-\d,]+)\) \(([-\d,]+)\) \(([-\d,]+)\)\) (\d+)$", d[pos:end])
        lo = [int(x) for x in m.group(1).split(b',')]; hi = [int(x) for x in m.group(2).split(b',')]; nc = int(m.group(4))
        n = int(np.prod([h - l + 1 for l, h in zip(lo, hi)])) * nc * 8
        out.append((lo, hi, nc, d[end + 1:end + 1 + n])); pos = end + 1 + n
    return out
def cellh(l): return f'bad/Level_{l}/Cell_H'
nb1 = len(r['levels'][1]['idx'])
def ed_offset_prefix(p):
    t = open(cellh(1)).read().split('\n'); i = 5 + nb1 + 2 + 3; a = t[i].split(); a[-1] = str(int(a[-1]) + 7); t[i] = ' '.join(a); open(cellh(1), 'w').write('\n'.join(t))
def ed_ws(p):
    t = open(cellh(1)).read().split('\n'); t[7] = t[7].replace(') (', ')   (') + '   '; t[5 + nb1 + 3] = t[5 + nb1 + 3].replace(' ', '\t  '); open(cellh(1), 'w').write('\n'.join(t))
def ed_fabprefix_first(p):
    f = 'bad/Level_1/' + r['levels'][1]['fod'][0][0]; d = open(f, 'rb').read(); open(f, 'wb').write(d.replace(b'FAB ((8, (64 11 52', b'FAB ((4, (32 11 52', 1))
def ed_fabprefix_second(p):
    fn = r['levels'][1]['fod'][0][0]; offs = sorted(o for f, o in r['levels'][1]['fod'] if f == fn); f = 'bad/Level_1/' + fn; d = open(f, 'rb').read(); o = offs[1]
    open(f, 'wb').write(d[:o] + d[o:].replace(b'FAB ((8, (64 11 52', b'FAB ((4, (32 11 52', 1))
def ed_swap_pairs(p):
    t = open(cellh(1)).read().split('\n'); a, b = 5 + 1, 5 + 4; t[a], t[b] = t[b], t[a]; a, b = 5 + nb1 + 2 + 1, 5 + nb1 + 2 + 4; t[a], t[b] = t[b], t[a]; open(cellh(1), 'w').write('\n'.join(t))
def ed_minmax(p):
    t = open(cellh(1)).read().split('\n'); i = 5 + nb1 + 2 + nb1 + 2; t[i] = '9.9e99,' * 2; open(cellh(1), 'w').write('\n'.join(t))
def ed_payload(p):
    f = 'bad/Level_1/' + r['levels'][1]['fod'][2][0]; d = bytearray(open(f, 'rb').read()); d[r['levels'][1]['fod'][2][1] + 200] ^= 0xFF; open(f, 'wb').write(bytes(d))
def ed_hdr_ws(p):
    t = open('bad/Header').read().split('\n'); t[5] = t[5] + '   '; open('bad/Header', 'w').write('\n'.join(t))
def ed_ncomp_cellh(p):
    t = open(cellh(1)).read().split('\n'); t[3] = '5'; open(cellh(1), 'w').write('\n'.join(t))   # ghost line
for name, ed in [('offset+7 in prefix', ed_offset_prefix), ('whitespace Cell_H', ed_ws), ('FAB prefix first FAB', ed_fabprefix_first), ('FAB prefix 2nd FAB', ed_fabprefix_second), ('swap two (idx,fod) pairs', ed_swap_pairs), ('min/max table', ed_minmax), ('payload flip', ed_payload), ('Header trailing ws', ed_hdr_ws), ('ghost line', ed_ncomp_cellh)]:
    shutil.rmtree('bad', ignore_errors=True); shutil.copytree('good', 'bad'); ed('bad')
    ok = quiet(lambda: bool(Taster('bad', nofail=True, verbose=0)))
    line = f'{name:28s} accepted={ok}'
    if ok:
        pck = PlotfileCooker('bad'); bad = 0
        for l in range(2):
            fabs = {}
            for fn in set(os.path.basename(f) for f in pck.cells[l]['files']):
                for lo, hi, nc, pay in scan(f'bad/Level_{l}/{fn}'): fabs[(fn, tuple(lo), tuple(hi))] = (nc, pay)
            for b in range(len(pck.cells[l]['indexes'])):
                lo, hi = pck.cells[l]['indexes'][b]; fn = os.path.basename(pck.cells[l]['files'][b])
                got = pck[:][l][b]; nc, pay = fabs[(fn, tuple(int(x) for x in lo), tuple(int(x) for x in hi))]
                want = np.frombuffer(pay, '<f8').reshape([h - lo_ + 1 for lo_, h in zip(lo, hi)] + [nc], order='F')
                if got.shape != want.shape or not np.array_equal(got.view('u8'), want.view('u8')): bad += 1
        line += f' reader-consistent={bad == 0}'
    print(line)
