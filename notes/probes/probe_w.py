import random, shutil, os, sys, numpy as np, io, contextlib
sys.path.insert(0, '/tmp/probe')
from gen import *
from amr_kitchen import PlotfileCooker
import amr_kitchen.whip.cli as whip
def quiet(f, *a, **k):
    buf = io.StringIO()
    with contextlib.redirect_stdout(buf), contextlib.redirect_stderr(buf):
        return f(*a, **k)
os.chdir('/tmp/probe')
rng = random.Random(2)
def covering3(r, fi, L):
    out = np.full(r['grid_sizes'][L], np.nan)
    for l in range(L + 1):
        f = 2 ** (L - l)
        for (lo, hi), d in zip(r['levels'][l]['idx'], r['levels'][l]['data']):
            a = d[..., fi]
            for ax in range(3): a = np.repeat(a, f, axis=ax)
            out[tuple(slice(lo[k] * f, (hi[k] + 1) * f) for k in range(3))] = a
    return out
spec = make_spec(rng, nlevels=3, nfields=3, n0=(8, 4, 12), sizes=(4,), nfiles=3, refine_frac=0.3)
shutil.rmtree('plt_w', ignore_errors=True); write_plotfile('plt_w', spec)
r = read_plotfile('plt_w')
for dtype in ('float64', 'float32'):
    for lim in (None, 0, 1):
        argv = ['whip', '-v', 'f1', '-o', 'wout', '-d', dtype, '-y', 'plt_w'] + (['-l', str(lim)] if lim is not None else [])
        sys.argv = argv
        try:
            quiet(whip.main)
            got = np.load('wout.npy')
            L = 2 if lim is None else lim
            want = covering3(r, 1, L).astype(dtype)
            print(dtype, 'lim', lim, 'shape', got.shape, 'want', want.shape, 'equal', got.shape == want.shape and np.array_equal(got, want), got.dtype)
        except SystemExit as e:
            print('exit', e)
        except Exception as e:
            print(dtype, lim, 'EXC', type(e).__name__, str(e)[:100])
# default outfile
sys.argv = ['whip', '-v', 'f1', '-y', 'plt_w']
quiet(whip.main); print([f for f in os.listdir('.') if 'ugrid' in f])
# C15 iteration
pck = PlotfileCooker('plt_w')
for fsel in (1, slice(0, 2), [0, 2], 'f2'):
    for lv in range(3):
        got = list(pck[fsel][lv])
        f = r['fields'].index(fsel) if isinstance(fsel, str) else fsel
        want = [d[..., f] for d in r['levels'][lv]['data']]
        # multiset compare
        def key(a): return (a.shape, a.tobytes())
        ok = sorted(map(key, got)) == sorted(map(key, want))
        print('iter', fsel, lv, 'n', len(got), len(want), 'multiset equal', ok)
sel = [2, 0, 1]
got = list(pck[1][1].iter(sel)); want = [r['levels'][1]['data'][b][..., 1] for b in sel]
print('iter(sel) ordered equal', all(np.array_equal(a, b) for a, b in zip(got, want)), len(got))
got = list(pck[1][1].iter(slice(None, None, 2))); want = [r['levels'][1]['data'][b][..., 1] for b in range(0, len(r['levels'][1]['idx']), 2)]
print('iter(slice) ordered equal', all(np.array_equal(a, b) for a, b in zip(got, want)), len(got), len(want))
mask = np.zeros(len(r['levels'][1]['idx']), bool); mask[[0, 3]] = True
got = pck[1][1][mask]; print('mask', len(got), all(np.array_equal(a, r['levels'][1]['data'][b][..., 1]) for a, b in zip(got, [0, 3])))
print("-----")
sys.argv = ['whip', '-v', 'f1', '-o', 'wout', '-y', 'plt_w']
quiet(whip.main)
got = np.load('wout.npy'); want = covering3(r, 1, 2)
diff = got != want
print('n diff', diff.sum(), 'of', diff.size)
ii = np.argwhere(diff)[:5]; print(ii, got[tuple(ii[0])], want[tuple(ii[0])])
# is got consistent with some other field?
for fi in range(3):
    print(fi, np.array_equal(got, covering3(r, fi, 2)))
