import random, shutil, os, sys, numpy as np, itertools, io, contextlib, copy, inspect, textwrap
sys.path.insert(0, '/tmp/probe')
from gen import *
import amr_kitchen.mandoline.mandoline as mm
from amr_kitchen.mandoline import Mandoline
from amr_kitchen.taste import Taster
src = inspect.getsource(mm.Mandoline.interpolate_bylevel)
src = textwrap.dedent(src)
src = src.replace("""lvarr = {'data':[self.limit_level_arr() for _ in range(self.nfidxs)],
             'normal':self.limit_level_arr()}""", """lvarr = lambda: {'data':[self.limit_level_arr() for _ in range(self.nfidxs)],
             'normal':self.limit_level_arr()}""")
src = src.replace("left = [lvarr for _", "left = [lvarr() for _").replace("right = [lvarr for _", "right = [lvarr() for _")
assert "lvarr()" in src
ns = {}
exec(src, mm.__dict__, ns)
if len(sys.argv) > 1 and sys.argv[1] == 'fix':
    mm.Mandoline.interpolate_bylevel = ns['interpolate_bylevel']
def quiet(f, *a, **k):
    buf = io.StringIO()
    with contextlib.redirect_stdout(buf), contextlib.redirect_stderr(buf):
        return f(*a, **k)
os.chdir('/tmp/probe')
rng = random.Random(11)
origin = [2.0, -1.0, 0.5]; length = [1.0, 2.0, 1.0]; n0 = (8, 8, 8)
def mkfill(cn):
    def fill(l, lo, hi, shp):
        arr = np.zeros(shp)
        dx = [length[d] / (n0[d] * 2**l) for d in range(3)]
        idx = np.meshgrid(*[np.arange(lo[d], hi[d] + 1) for d in range(3)], indexing='ij')
        c = origin[cn] + (idx[cn] + 0.5) * dx[cn]
        arr[..., 0] = 3.0 + 2.0 * c
        arr[..., 1] = 1000 * l + idx[(cn+1)%3] * 7 + idx[(cn+2)%3] * 0.01
        return arr
    return fill
real_empty = np.empty
def poisoned(val):
    def e(shape, dtype=float, order='C', **kw):
        a = real_empty(shape, dtype=dtype, order=order)
        try: a.fill(val)
        except Exception: pass
        return a
    return e
for cn in range(3):
  for nl in (1, 2, 3):
    spec = make_spec(rng, nlevels=nl, nfields=2, n0=n0, sizes=(4, 8), origin=origin, length=length, fill=mkfill(cn), refine_frac=0.9)
    shutil.rmtree('m3', ignore_errors=True); write_plotfile('m3', spec)
    lo = origin[cn]; dxf = length[cn] / (n0[cn] * 2**(nl-1)); dx0 = length[cn] / n0[cn]
    for name, pos in {'rand': lo + length[cn]*0.37123, 'centre': lo + dxf * 5.5, 'lowface': lo, 'boxface': lo + length[cn]/2, 'gap': lo + length[cn]/2 + dxf/4, 'coarsecentre': lo + dx0*2.5}.items():
        outs = []
        for pv in (1.5e300, -7.25e-300):
            shutil.rmtree('m3out', ignore_errors=True)
            np.empty = poisoned(pv)
            try:
                m = quiet(Mandoline, 'm3', fields=['f0', 'f1'], serial=True, verbose=0)
                quiet(m.slice, normal=cn, pos=pos, fformat='plotfile', outfile='m3out')
                np.empty = real_empty
                ok = quiet(lambda: bool(Taster('m3out', nofail=True, verbose=0, boxes_coordinates=True)))
                o = read_plotfile('m3out'); outs.append(o)
            except Exception as e:
                np.empty = real_empty
                outs.append(f'EXC {type(e).__name__} {str(e)[:100]}')
        if isinstance(outs[0], str): print('C16 cn', cn, 'nl', nl, name, outs[0]); continue
        o = outs[0]
        dep = any(not np.array_equal(d1, d2) for l1, l2 in zip(outs[0]['levels'], outs[1]['levels']) for d1, d2 in zip(l1['data'], l2['data']))
        aff = max(np.max(np.abs(d[..., 0] - (3 + 2 * pos))) for lev in o['levels'] for d in lev['data'])
        tagerr = 0
        for l, lev in enumerate(o['levels']):
            for (blo, bhi), d in zip(lev['idx'], lev['data']):
                ii = np.meshgrid(np.arange(blo[0], bhi[0]+1), np.arange(blo[1], bhi[1]+1), indexing='ij')
                cx, cy = [i for i in range(3) if i != cn]
                idx3 = {cx: ii[0], cy: ii[1]}
                want = 1000 * l + idx3[(cn+1)%3] * 7 + idx3[(cn+2)%3] * 0.01
                tagerr = max(tagerr, np.max(np.abs(d[..., 1] - want)))
        mm_ok = all(np.allclose(np.min(d.reshape(-1, d.shape[-1]), axis=0), mn) and np.allclose(np.max(d.reshape(-1, d.shape[-1]), axis=0), mx) for lev in o['levels'] for d, mn, mx in zip(lev['data'], lev['mins'], lev['maxs']))
        print('C16 cn', cn, 'nl', nl, f'{name:12s}', 'taste', ok, 'boxes', [len(l['idx']) for l in o['levels']], f'affine_err {aff:.3g} tag_err {tagerr:.3g} uninit_dep {dep} minmax_ok {mm_ok}')
