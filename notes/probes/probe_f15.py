import random, shutil, os, sys, numpy as np, io, contextlib
sys.path.insert(0, '/tmp/probe')
from gen import *
import cantera as ct
from amr_kitchen.chef import Chef
from amr_kitchen.mandoline import Mandoline
def quiet(f, *a, **k):
    buf = io.StringIO()
    with contextlib.redirect_stdout(buf), contextlib.redirect_stderr(buf):
        return f(*a, **k)
os.makedirs('/dev/shm/akvproto', exist_ok=True); os.chdir('/dev/shm/akvproto')
gas = ct.Solution('/repo/test_assets/drm19.yaml'); sp = [s.name for s in gas.species()]
fields = ['temp'] + [f'Y({s})' for s in sp]
rng = random.Random(4)
def fill(l, lo, hi, shp):
    arr = np.zeros(shp); n = int(np.prod(shp[:-1]))
    T = np.array([rng.uniform(300, 2000) for _ in range(n)]); T[::5] = 0.0
    arr[..., 0] = T.reshape(shp[:-1])
    Y = np.array([[rng.random() for _ in sp] for _ in range(n)]); Y /= Y.sum(axis=1, keepdims=True); Y[::7] = 0.0
    arr[..., 1:] = Y.reshape(shp[:-1] + (len(sp),)); return arr
spec = make_spec(rng, nlevels=1, n0=(4, 4, 4), sizes=(2, 4), nfiles=1, fields=fields, fill=fill)
shutil.rmtree('f15', ignore_errors=True); write_plotfile('f15', spec); shutil.rmtree('f15o', ignore_errors=True)
c = quiet(Chef, 'f15', recipe='/tmp/probe/rec4.py', outfile='f15o', serial=True, mech='/repo/test_assets/drm19.yaml', pressure=1.0, kept_fields='temp Y(O2)'); quiet(c.cook)
r = read_plotfile('f15'); o = read_plotfile('f15o')
print('out fields', o['fields'])
# data order is kept-then-new: comps 0,1 = temp, Y(O2)
d = r['levels'][0]['data'][0]; od = o['levels'][0]['data'][0]
print('kept temp identical:', np.array_equal(od[..., 0], d[..., 0]), 'n changed', int((od[..., 0] != d[..., 0]).sum()), 'kept Y(O2) identical:', np.array_equal(od[..., 1], d[..., 1 + sp.index('O2')]))
# F24
rng = random.Random(8)
lv0 = [((0, 0, 0), (7, 7, 7))]; lv1 = [((0, 0, 0), (7, 7, 7))]   # fine level only covers x in [0, 0.5)
spec = dict(ndims=3, fields=['a'], time=0.1, geo_lo=[0, 0, 0], geo_hi=[1, 1, 1], n0=(8, 8, 8), levels=[])
for boxes in (lv0, lv1):
    spec['levels'].append(dict(boxes=boxes, files=[0] * len(boxes), data=[np.ones((8, 8, 8, 1)) for _ in boxes]))
shutil.rmtree('f24', ignore_errors=True); write_plotfile('f24', spec)
for pos in (0.3, 0.8):
    shutil.rmtree('f24o', ignore_errors=True)
    try:
        m = quiet(Mandoline, 'f24', fields=['a'], serial=True, verbose=0); quiet(m.slice, normal=0, pos=pos, fformat='plotfile', outfile='f24o'); print('pos', pos, 'ok', os.listdir('f24o'))
    except Exception as e:
        print('pos', pos, 'EXC', type(e).__name__, str(e)[:80])
