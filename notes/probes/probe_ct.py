import numpy as np, cantera as ct, random, time
gas = ct.Solution('/repo/test_assets/drm19.yaml'); sp = gas.species_names; rng = random.Random(3)
n = 200
T = np.array([rng.uniform(300, 2500) for _ in range(n)]); Y = np.array([[rng.random() ** 3 for _ in sp] for _ in range(n)]); Y /= Y.sum(axis=1, keepdims=True); P = 2.0 * ct.one_atm
sa = ct.SolutionArray(gas, (n,)); sa.TPY = T, P * np.ones(n), Y
t0 = time.time()
out = {k: [] for k in ['heat_release_rate', 'enthalpy_mass', 'net_production_rates', 'mix_diff_coeffs_mass', 'net_rates_of_progress']}
for i in range(n):
    gas.TPY = T[i], P, Y[i]
    for k in out: out[k].append(np.array(getattr(gas, k)))
dt = time.time() - t0
for k in out:
    a = np.array(out[k]); b = getattr(sa, k)
    scale = np.max(np.abs(b), axis=0) if b.ndim > 1 else np.max(np.abs(b))
    rel = np.max(np.abs(a - b) / (np.abs(b) + 1e-300)); relscale = np.max(np.abs(a - b) / (scale + 1e-300))
    print(f'{k:24s} bit-identical={np.array_equal(a, b)} max rel diff {rel:.2e}  max diff/column-scale {relscale:.2e}')
print('per-cell evaluation: %.0f us/cell for all five properties' % (1e6 * dt / n))
