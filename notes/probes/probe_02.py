import random, shutil, os, sys, numpy as np, io, contextlib, pickle
sys.path.insert(0, '/tmp/probe')
from gen import *
from amr_kitchen import PlotfileCooker
os.chdir('/tmp/probe')
rng = random.Random(4)
spec = make_spec(rng, nlevels=3, nfields=4, n0=(8, 8, 8), sizes=(4, 8), nfiles=2, refine_frac=0.4, fields=['t', 't', 'u', 't'], origin=[1., 2., 3.], length=[1., 2., 4.])
spec['nfactors'] = 5
shutil.rmtree('c02', ignore_errors=True); write_plotfile('c02', spec)
r = read_plotfile('c02')
p = PlotfileCooker('c02', maxmins=True)
print(p.fields, p.factors, p.time == r['time'], p.geo_low, p.geo_high, [list(g) for g in p.grid_sizes], p.dx == r['dx'])
print('boxes eq', all(np.array_equal(np.array(p.boxes[l]), np.array(r['levels'][l]['phys'])) for l in range(3)))
print('idx eq', all(np.array_equal(np.array(p.cells[l]['indexes']), np.array(r['levels'][l]['idx'])) for l in range(3)))
print('files', p.cells[1]['files'][:2], p.cells[1]['offsets'][:2], r['levels'][1]['fod'][:2])
print('mins', {k: v[:2] for k, v in p.cells[1]['mins'].items()}, [m for m in r['levels'][1]['mins'][:2]])
print('grids', p.grids[1][2][:3], [3. + (i + .5) * 4. / 16 for i in range(3)])
for lim in (0, 1, 2, 3, -1):
    try:
        q = PlotfileCooker('c02', limit_level=lim); print('lim', lim, q.limit_level, len(q.cells), len(q.boxes), len(q.grids))
    except Exception as e: print('lim', lim, type(e).__name__, str(e)[:80])
shutil.copytree('c02', 'c02h'); shutil.rmtree('c02h/Level_1'); shutil.rmtree('c02h/Level_0'); shutil.rmtree('c02h/Level_2')
h = PlotfileCooker('c02h', header_only=True); print('header only ok', h.fields, hasattr(h, 'cells'), len(h.boxes))
