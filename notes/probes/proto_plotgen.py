"""Prototype of the block-based nested plotfile strategy described in DESIGN 2.2 (note, not framework)."""
import sys, os, itertools, random, json, hashlib, time, collections
sys.path.insert(0, '/tmp/probe')
import numpy as np
from hypothesis import strategies as st

@st.composite
def mesh_specs(draw, ndims=None, max_levels=3, max_cells=6000):
    nd = draw(st.sampled_from([2, 3])) if ndims is None else ndims
    bf = draw(st.sampled_from([2, 4, 8]))
    m = draw(st.integers(1, 3))                          # max box extent = m*bf
    nb0 = [draw(st.integers(1, 5)) for _ in range(nd)]   # blocks per dim at level 0
    unit_ok = draw(st.booleans())
    if not unit_ok: nb0 = [max(2, n) for n in nb0]
    while np.prod(nb0) * bf ** nd > max_cells:
        i = int(np.argmax(nb0))
        if nb0[i] == 1: bf //= 2; break
        nb0[i] -= 1
    bf = max(bf, 2)
    nlev = draw(st.integers(1, max_levels))
    rects = []   # per finer level: list of rectangles in fine-block coords (lo, size)
    for l in range(1, nlev):
        nbl = [n * 2 ** l for n in nb0]
        k = draw(st.integers(1, 3))
        rs = []
        for _ in range(k):
            lo = [draw(st.integers(0, nbl[d] - 1)) for d in range(nd)]
            cap = 4 if bf <= 4 else 2
            sz = [draw(st.integers(1, max(1, min(cap, nbl[d] - lo[d])))) for d in range(nd)]
            rs.append((lo, sz))
        rects.append(rs)
    # explicit mode draws keep the canonical (simplest) choice frequent and make it the shrink target
    chop_seed = draw(st.one_of(st.just(0), st.integers(1, 2 ** 16))); order_seed = draw(st.one_of(st.just(0), st.integers(1, 2 ** 16)))
    layout_seed = draw(st.one_of(st.just(0), st.integers(1, 2 ** 16)))
    nfiles = draw(st.integers(1, 4)); no_unit = not unit_ok
    return dict(no_unit=no_unit, ndims=nd, bf=bf, m=m, nb0=nb0, nlev=nlev, rects=rects, chop_seed=chop_seed, order_seed=order_seed, layout_seed=layout_seed, nfiles=nfiles)

def tile1d(n, m, rng, no_unit):
    out = []; p = 0
    while p < n:
        rem = n - p
        cands = [e for e in range(1, m + 1) if e <= rem]
        if no_unit and n >= 2:
            cands = [e for e in (2, 3) if e <= rem and rem - e != 1] or [rem]
        e = max(cands) if rng is None else rng.choice(cands)
        out.append((p, e)); p += e
    return out

def build_mesh(ms):
    """-> list per level of boxes [(lo, hi)] in cell indices, files, order  (pure function of ms)"""
    nd, bf, m = ms['ndims'], ms['bf'], ms['m']
    levels = []
    region = set(itertools.product(*[range(n) for n in ms['nb0']]))
    for l in range(ms['nlev']):
        if l > 0:
            children = set()
            for b in region:
                for off in itertools.product((0, 1), repeat=nd): children.add(tuple(2 * b[d] + off[d] for d in range(nd)))
            sel = set()
            for lo, sz in ms['rects'][l - 1]:
                for c in itertools.product(*[range(lo[d], lo[d] + sz[d]) for d in range(nd)]):
                    if c in children: sel.add(c)
            if not sel: sel = {min(children)}
            region = sel
        # chop region (set of blocks) into boxes of at most m blocks per dim
        rng = random.Random(ms['chop_seed'] * 7 + l) if ms['chop_seed'] else None
        todo = set(region); boxes = []; dropped = set()
        if l == 0:
            tl = [tile1d(ms['nb0'][d], m, rng, ms.get('no_unit')) for d in range(nd)]
            for combo in itertools.product(*tl):
                boxes.append((tuple(c[0] * bf for c in combo), tuple((c[0] + c[1]) * bf - 1 for c in combo)))
            todo = set()
        for b in sorted(region, key=lambda t: t[::-1]):
            if b not in todo: continue
            ext = [1] * nd
            for d in range(nd):
                target = m if rng is None else rng.randint(1, m)
                if ms.get('no_unit'): target = max(2, target) if rng is None else rng.choice([2, 3])
                while ext[d] < target:
                    cand = [tuple(b[k] + (o[k] if k != d else ext[d]) for k in range(nd)) for o in itertools.product(*[range(ext[k]) if k != d else [0] for k in range(nd)])]
                    if all(c in todo for c in cand): ext[d] += 1
                    else: break
            for o in itertools.product(*[range(e) for e in ext]): todo.discard(tuple(b[k] + o[k] for k in range(nd)))
            if ms.get('no_unit') and min(ext) == 1 and (l > 0) and (boxes or len(todo) > 0):
                dropped.update(tuple(b[k] + o[k] for k in range(nd)) for o in itertools.product(*[range(e) for e in ext])); continue
            boxes.append((tuple(b[d] * bf for d in range(nd)), tuple((b[d] + ext[d]) * bf - 1 for d in range(nd))))
        region = region - dropped
        if not boxes:
            b = min(region | dropped); boxes.append((tuple(b[d] * bf for d in range(nd)), tuple((b[d] + 1) * bf - 1 for d in range(nd)))); region = {b}
        if ms['order_seed']: random.Random(ms['order_seed'] * 11 + l).shuffle(boxes)
        nb = len(boxes)
        if ms['layout_seed']:
            r = random.Random(ms['layout_seed'] * 13 + l)
            files = [r.randrange(ms['nfiles']) for _ in range(nb)]
            order = {}
            for fi in set(files):
                p = list(range(files.count(fi)))
                if r.random() < 0.6: r.shuffle(p)
                order[fi] = p
        else:
            files = [0] * nb; order = {}
        levels.append(dict(boxes=boxes, files=files, order=order))
    return levels

def classify(ms, levels):
    lab = []
    lab.append(f"{ms['ndims']}D"); lab.append(f"L{ms['nlev']}")
    exts = set(hi[d] - lo[d] + 1 for lv in levels for lo, hi in lv['boxes'] for d in range(ms['ndims']))
    if len(exts) > 1: lab.append('mixed-extents')
    if any((hi[d] - lo[d] + 1) % min(exts) or lo[d] % min(exts) for lv in levels for lo, hi in lv['boxes'] for d in range(ms['ndims'])): lab.append('unaligned-to-min-extent')
    nonmono = False; scattered = False
    for lv in levels:
        if len(set(lv['files'])) > 1: scattered = True
        for fi, p in lv['order'].items():
            if p != sorted(p): nonmono = True
    if scattered: lab.append('scattered')
    if nonmono: lab.append('non-monotone')
    if ms['nlev'] > 1:
        # partial refinement?
        for l in range(1, ms['nlev']):
            fine = sum(np.prod([hi[d] - lo[d] + 1 for d in range(ms['ndims'])]) for lo, hi in levels[l]['boxes'])
            coarse = sum(np.prod([hi[d] - lo[d] + 1 for d in range(ms['ndims'])]) for lo, hi in levels[l - 1]['boxes'])
            if fine < coarse * 2 ** ms['ndims']: lab.append('partial-refinement'); break
    if len(set(ms['nb0'])) > 1: lab.append('non-cubic')
    if max(len(lv['boxes']) for lv in levels) > 1: lab.append('multi-box')
    return lab

def check_nesting(ms, levels):
    nd = ms['ndims']
    for l in range(1, len(levels)):
        cov = set()
        for lo, hi in levels[l - 1]['boxes']:
            for c in itertools.product(*[range(lo[d], hi[d] + 1) for d in range(nd)]): cov.add(c)
        seen = set()
        for lo, hi in levels[l]['boxes']:
            for c in itertools.product(*[range(lo[d], hi[d] + 1) for d in range(nd)]):
                assert c not in seen, 'overlap'; seen.add(c)
                assert tuple(x // 2 for x in c) in cov, 'not nested'
    seen = set()
    for lo, hi in levels[0]['boxes']:
        for c in itertools.product(*[range(lo[d], hi[d] + 1) for d in range(nd)]): assert c not in seen; seen.add(c)
    assert len(seen) == np.prod([n * ms['bf'] for n in ms['nb0']]), 'level 0 must tile the domain'

if __name__ == '__main__':
    from hypothesis import given, settings, seed, HealthCheck
    cnt = collections.Counter(); n = [0]; cells = []; boxes = []; distinct = set()
    @seed(1)
    @settings(max_examples=1500, deadline=None, database=None, suppress_health_check=list(HealthCheck))
    @given(mesh_specs())
    def t(ms):
        levels = build_mesh(ms); check_nesting(ms, levels)
        for lab in classify(ms, levels): cnt[lab] += 1
        n[0] += 1
        cells.append(sum(np.prod([hi[d] - lo[d] + 1 for d in range(ms['ndims'])]) for lv in levels for lo, hi in lv['boxes']))
        boxes.append(sum(len(lv['boxes']) for lv in levels))
        distinct.add(hashlib.sha1(json.dumps([lv['boxes'] for lv in levels] + [lv['files'] for lv in levels], sort_keys=True).encode()).hexdigest())
    t0 = time.time(); t(); dt = time.time() - t0
    print('examples', n[0], 'distinct meshes', len(distinct), '%.1f ms/example' % (1000 * dt / n[0]))
    for k, v in sorted(cnt.items()): print(f'  {k:26s} {v:5d}  {100 * v / n[0]:.0f}%')
    print('cells: median', int(np.median(cells)), 'p90', int(np.percentile(cells, 90)), 'max', max(cells), '| boxes: median', int(np.median(boxes)), 'p90', int(np.percentile(boxes, 90)), 'max', max(boxes))
