import random, shutil, os, sys, numpy as np, io, contextlib
sys.path.insert(0, '/tmp/probe')
from gen import *
from amr_kitchen import PlotfileCooker
from amr_kitchen.chef import Chef
from amr_kitchen.taste import Taster
def quiet(f, *a, **k):
    buf = io.StringIO()
    with contextlib.redirect_stdout(buf), contextlib.redirect_stderr(buf):
        return f(*a, **k)
os.chdir('/tmp/probe')
rng = random.Random(4)
spec = make_spec(rng, nlevels=2, nfields=3, n0=(8, 8, 8), sizes=(4, 8), nfiles=2, refine_frac=0.4)
shutil.rmtree('ch', ignore_errors=True); write_plotfile('ch', spec)
r = read_plotfile('ch')
for rec, kept, serial in [('rec1.py', None, True), ('rec1.py', None, False), ('rec1.py', 'f1', True), ('rec1.py', 'f2 f0', True), ('rec2.py', None, True), ('rec2.py', 'f1', False)]:
    shutil.rmtree('chout', ignore_errors=True)
    try:
        c = quiet(Chef, 'ch', recipe=rec, outfile='chout', serial=serial, kept_fields=kept); quiet(c.cook)
        ok = quiet(lambda: bool(Taster('chout', nofail=True, verbose=0)))
        o = read_plotfile('chout')
        # evaluate
        errs = []
        for l in range(2):
            for k, d in enumerate(r['levels'][l]['data']):
                od = o['levels'][l]['data'][k]
                exp = {'f0': d[..., 0], 'f1': d[..., 1], 'f2': d[..., 2]}
                if rec == 'rec1.py': exp['newA'] = d[..., 0] * 2.0 + d[..., 2]
                else: exp['newA'] = d[..., 0] * 2.0; exp['newB'] = d[..., 1] - 1.0
                for i, name in enumerate(o['fields']):
                    if not np.array_equal(od[..., i], exp[name]): errs.append((l, k, name))
                mn = np.min(od.reshape(-1, od.shape[-1]), axis=0); mx = np.max(od.reshape(-1, od.shape[-1]), axis=0)
                if not (np.array_equal(mn, o['levels'][l]['mins'][k]) and np.array_equal(mx, o['levels'][l]['maxs'][k])): errs.append((l, k, 'minmax'))
        print(rec, 'kept', kept, 'serial', serial, 'taste', ok, 'fields', o['fields'], 'nerrs', len(errs), errs[:2])
    except Exception as e:
        import traceback
        print(rec, kept, serial, 'EXC', type(e).__name__, str(e)[:200])
