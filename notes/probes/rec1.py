def recipe(field_indexes, box_array):
    """
    newA
    """
    return box_array[:, :, :, field_indexes["f0"]] * 2.0 + box_array[:, :, :, field_indexes["f2"]]
