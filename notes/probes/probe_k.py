import random, shutil, os, sys, numpy as np, io, contextlib
sys.path.insert(0, '/tmp/probe')
from gen import *; from genchk import *
from amr_kitchen.chk2plt import chk2plt, CheckpointReader
from amr_kitchen.taste import Taster
def quiet(f, *a, **k):
    buf = io.StringIO()
    with contextlib.redirect_stdout(buf), contextlib.redirect_stderr(buf):
        return f(*a, **k)
os.chdir('/tmp/probe')
rng = random.Random(3)
lv0 = [((0,0,0),(7,7,7)), ((8,0,0),(15,7,7))]
lv1 = [((8,4,4),(15,11,11)), ((16,4,4),(19,7,7))]
for geo_hi, name in [([2.0, 1.0, 1.0], 'cubic cells'), ([1.0, 1.0, 1.0], 'anisotropic cells')]:
  for kw in [dict(gradp=True, species_reactions=False, floor_massfracs=False), dict(gradp=False, species_reactions=False, floor_massfracs=True), dict(gradp=True, species_reactions=True, floor_massfracs=False)]:
    shutil.rmtree('chk00010', ignore_errors=True); shutil.rmtree('kout', ignore_errors=True)
    truth = write_checkpoint('chk00010', rng, [lv0, lv1], 2, [0.0, 0.0, 0.0], geo_hi, 0.125, nghost=2)
    try:
        quiet(chk2plt, 'chk00010', species=['A', 'B'], pltdir='kout', **kw)
        ok = quiet(lambda: bool(Taster('kout', nofail=True, verbose=0)))
        okc = quiet(lambda: bool(Taster('kout', nofail=True, verbose=0, boxes_coordinates=True)))
        o = read_plotfile('kout')
        errs = []
        for l, boxes in enumerate([lv0, lv1]):
            for b in range(len(boxes)):
                st, ng = truth[l]['state']; want = st[b][ng:-ng, ng:-ng, ng:-ng, :].copy()
                if kw['floor_massfracs']: want[..., 4:-3] /= want[..., 4:-3].sum(axis=-1)[..., None]
                if kw['gradp']: want = np.concatenate([want, truth[l]['gradp'][0][b]], axis=-1)
                if kw['species_reactions']: want = np.concatenate([want, truth[l]['I_R'][0][b]], axis=-1)
                got = o['levels'][l]['data'][b]
                if got.shape != want.shape or not np.allclose(got, want, rtol=1e-13): errs.append((l, b, got.shape, want.shape))
        print(name, kw, 'taste', ok, 'taste+coords', okc, 'time', o['time'], 'fields', o['fields'], 'errs', errs)
    except Exception as e:
        print(name, kw, 'EXC', type(e).__name__, str(e)[:150])
# default output
shutil.rmtree('chk00010', ignore_errors=True); shutil.rmtree('plt00010', ignore_errors=True)
write_checkpoint('chk00010', rng, [lv0, lv1], 2, [0.0, 0.0, 0.0], [2., 1., 1.], 0.125, nghost=2)
before = sorted(os.listdir('chk00010'))
quiet(chk2plt, 'chk00010/', species=['A', 'B']); print('trailing slash default:', sorted(os.listdir('chk00010')), os.path.exists('plt00010'))
