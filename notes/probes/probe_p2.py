import random, shutil, os, sys, numpy as np, io, contextlib
sys.path.insert(0, '/tmp/probe')
from gen import *
exec(open('probe_p.py').read().split("for sizes, n0 in")[0].replace("rng = random.Random(int(sys.argv[1]))", "rng = random.Random(1)"))
def mk(boxes1, n0=(16,16,16), boxes0=None):
    nf = 1
    boxes0 = boxes0 or [((0,0,0), tuple(n-1 for n in n0))]
    spec = dict(ndims=3, fields=['a'], time=0.5, geo_lo=[0,0,0], geo_hi=[1,1,1], n0=n0, levels=[])
    for l, boxes in enumerate([boxes0, boxes1]):
        data = [np.array([rng.uniform(1, 2) for _ in range(int(np.prod([hi[d]-lo[d]+1 for d in range(3)])))]).reshape([hi[d]-lo[d]+1 for d in range(3)] + [1]) for lo, hi in boxes]
        spec['levels'].append(dict(boxes=boxes, files=[0]*len(boxes), data=data))
    return spec
cases = {
 '16+24 adjacent in x': [((0,0,0),(15,15,15)), ((16,0,0),(39,15,15))],
 'single 24 at 0': [((0,0,0),(23,15,15)), ((0,16,0), (15,31,15))],
 '16 at offset 8': [((8,0,0),(23,15,15))],
 '16s only': [((0,0,0),(15,15,15)), ((16,0,0),(31,15,15))],
 '8 and 16 (blocking 8)': [((0,0,0),(7,7,7)), ((8,0,0),(23,15,15))],
}
for name, b1 in cases.items():
    spec = mk(b1, n0=(32,16,16))
    shutil.rmtree('pe2', ignore_errors=True); write_plotfile('pe2', spec)
    r = read_plotfile('pe2')
    try:
        pck = quiet(PlotfileCooker, 'pe2', ghost=True)
        got = quiet(volume_integral, pck, 'a'); want = ref_integral(r, 0, 1)
        print(f"{name:28s} rel_err {abs(got-want)/abs(want):.3e}")
    except Exception as e:
        print(name, 'EXC', type(e).__name__, str(e)[:200])
