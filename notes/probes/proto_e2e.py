"""Prototype end-to-end loop for one property (C05): strategy -> case JSON -> check_case -> shrink -> replay file."""
import sys, os, io, json, shutil, contextlib, hashlib, time, collections, random
sys.path.insert(0, '/tmp/probe')
import numpy as np
from hypothesis import given, settings, seed, HealthCheck, strategies as st, event
import multiprocessing
from proto_plotgen import mesh_specs, build_mesh, classify
from gen import write_plotfile, read_plotfile
class FakePool:
    def __init__(self, *a, **k): pass
    def map(self, f, it): return [f(x) for x in it]
    def imap(self, f, it): return iter([f(x) for x in it])
    imap_unordered = imap
    def __enter__(self): return self
    def __exit__(self, *a): pass
multiprocessing.Pool = FakePool
from amr_kitchen.colander import Colander
from amr_kitchen.taste import Taster
SCR = '/dev/shm/akv-e2e'; os.makedirs(SCR, exist_ok=True); os.chdir(SCR)
def quiet(f, *a, **k):
    buf = io.StringIO()
    with contextlib.redirect_stdout(buf), contextlib.redirect_stderr(buf):
        return f(*a, **k)
def coded(level, lo, hi, nf):
    nd = len(lo); shp = tuple(hi[d] - lo[d] + 1 for d in range(nd))
    idx = np.meshgrid(*[np.arange(lo[d], hi[d] + 1) for d in range(nd)], indexing='ij')
    code = sum(idx[d].astype(float) * (512.0 ** d) for d in range(nd))
    return np.stack([2.0 ** 30 * (level + 1) + 2.0 ** 27 * f + code for f in range(nf)], axis=-1)
def materialise(case, path):
    ms = case['mesh']; levels = build_mesh(ms); nd = ms['ndims']; nf = case['nfields']
    spec = dict(ndims=nd, fields=[f'f{i}' for i in range(nf)], time=0.25, geo_lo=[0.0] * nd, geo_hi=[1.0] * nd, n0=[n * ms['bf'] for n in ms['nb0']], levels=[])
    for l, lv in enumerate(levels):
        spec['levels'].append(dict(boxes=lv['boxes'], files=lv['files'], order=lv['order'], data=[coded(l, lo, hi, nf) for lo, hi in lv['boxes']]))
    write_plotfile(path, spec); return spec
def check_case(case):
    shutil.rmtree('src', ignore_errors=True); shutil.rmtree('out', ignore_errors=True)
    spec = materialise(case, 'src'); names = spec['fields']
    variables = [names[i] if i < len(names) else f'nope{i}' for i in case['vars']]
    limit = case['limit']
    c = quiet(Colander, 'src', limit_level=limit, output='out', variables=variables); quiet(c.strain)
    v = []
    if not quiet(lambda: bool(Taster('out', nofail=True, verbose=0))): v.append('taste rejects output')
    a = read_plotfile('src')
    try: b = read_plotfile('out')
    except Exception as e: return v + [f'independent reader fails on output: {type(e).__name__} {e}']
    kept = [n for n in variables if n in names]; fi = [names.index(n) for n in kept]
    L = a['max_level'] if limit is None else limit
    if b['fields'] != kept: v.append(f"fields {b['fields']} != {kept}")
    if b['max_level'] != L: v.append('level count')
    for l in range(min(L, b['max_level']) + 1):
        A, B = a['levels'][l], b['levels'][l]
        if A['idx'] != B['idx']: v.append(f'level {l} index ranges differ'); continue
        for k in range(len(A['idx'])):
            if not np.array_equal(np.ascontiguousarray(A['data'][k][..., fi]).view('u8'), np.ascontiguousarray(B['data'][k]).view('u8')): v.append(f'level {l} box {k} {A["idx"][k]} data differs'); break
            if [A['mins'][k][i] for i in fi] != B['mins'][k] or [A['maxs'][k][i] for i in fi] != B['maxs'][k]: v.append(f'level {l} box {k} min/max rows differ'); break
    return v
@st.composite
def cases(draw):
    ms = draw(mesh_specs(max_cells=2000)); nf = draw(st.integers(1, 5))
    vars_ = draw(st.lists(st.integers(0, nf + 1), min_size=1, max_size=nf + 2, unique=True).filter(lambda v: any(i < nf for i in v)))
    limit = draw(st.one_of(st.none(), st.integers(0, ms['nlev'] - 1)))
    return dict(mesh=ms, nfields=nf, vars=vars_, limit=limit)
if __name__ == '__main__':
    if len(sys.argv) > 2 and sys.argv[1] == '--replay':
        case = json.load(open(sys.argv[2])); v = check_case(case); print('replay ->', v or 'holds'); sys.exit(1 if v else 0)
    last = {}; stats = collections.Counter(); seen = set()
    @seed(int(os.environ.get('VERIF_SEED', '1')))
    @settings(max_examples=int(sys.argv[1]) if len(sys.argv) > 1 else 200, deadline=None, database=None, report_multiple_bugs=False, suppress_health_check=list(HealthCheck))
    @given(cases())
    def t(case):
        stats['evaluations'] += 1
        levels = build_mesh(case['mesh'])
        labs = classify(case['mesh'], levels)
        nontrivial = (len(case['vars']) != case['nfields'] or case['vars'] != sorted(case['vars']) or (case['limit'] is not None and case['limit'] < case['mesh']['nlev'] - 1) or 'non-monotone' in labs or 'scattered' in labs)
        h = hashlib.sha1(json.dumps(case, sort_keys=True).encode()).hexdigest()
        if nontrivial and h not in seen: seen.add(h); stats['distinct_nontrivial'] += 1
        v = check_case(case)
        if v:
            last['case'] = case; last['v'] = v
            raise AssertionError(v[0])
    t0 = time.time()
    try:
        t(); print('held;', dict(stats), '%.1fs' % (time.time() - t0))
    except AssertionError as e:
        os.makedirs('/tmp/probe/replays', exist_ok=True)
        p = '/tmp/probe/replays/C05-%s.json' % hashlib.sha1(json.dumps(last['case'], sort_keys=True).encode()).hexdigest()[:12]
        json.dump(last['case'], open(p, 'w'), indent=1)
        print('VIOLATION property=C05 replay=' + p); print('shrunk case:', json.dumps(last['case'])); print('violations:', last['v'][:3]); print(dict(stats), '%.1fs' % (time.time() - t0))
