"""Prototype: write audit + fault injection at every open-for-write / write call."""
import sys, os, io, builtins, contextlib, shutil, random, errno, hashlib, time
sys.path.insert(0, '/tmp/probe')
exec(open('/tmp/probe/proto_pool.py').read().split("def quiet")[0].replace("from hypothesis import", "#"))
import numpy as np
from amr_kitchen.mandoline import Mandoline
from amr_kitchen.combine import combine
from amr_kitchen import PlotfileCooker
from gen import *
def quiet(f, *a, **k):
    buf = io.StringIO()
    with contextlib.redirect_stdout(buf), contextlib.redirect_stderr(buf):
        return f(*a, **k)
AUDIT = {'on': False, 'events': []}
def hook(ev, args):
    if not AUDIT['on']: return
    if ev == 'open':
        path, mode, flags = args
        if isinstance(mode, str) and any(c in mode for c in 'wax+'): AUDIT['events'].append(('open-w', str(path)))
        elif mode is None and isinstance(flags, int) and flags & (os.O_WRONLY | os.O_RDWR | os.O_CREAT): AUDIT['events'].append(('open-w-fd', str(path)))
    elif ev in ('os.mkdir', 'os.rename', 'os.remove', 'os.rmdir', 'shutil.rmtree', 'os.truncate', 'os.chmod', 'os.symlink', 'os.link', 'shutil.copyfile', 'shutil.move', 'os.utime'):
        AUDIT['events'].append((ev, str(args[0])))
sys.addaudithook(hook)
real_open = builtins.open
class Inject:
    def __init__(self): self.n_open = 0; self.n_write = 0; self.fail_open = None; self.fail_write = None; self.fired = False
INJ = Inject()
class WFile:
    def __init__(self, f): self._f = f
    def write(self, b):
        INJ.n_write += 1
        if INJ.fail_write == INJ.n_write:
            INJ.fired = True; raise OSError(errno.ENOSPC, 'No space left on device (injected)')
        return self._f.write(b)
    def __getattr__(self, k): return getattr(self._f, k)
    def __enter__(self): self._f.__enter__(); return self
    def __exit__(self, *a): return self._f.__exit__(*a)
    def __iter__(self): return iter(self._f)
def fopen(file, mode='r', *a, **k):
    if isinstance(mode, str) and any(c in mode for c in 'wax+'):
        INJ.n_open += 1
        if INJ.fail_open == INJ.n_open:
            INJ.fired = True; raise OSError(errno.EACCES, 'Permission denied (injected)', str(file))
        return WFile(real_open(file, mode, *a, **k))
    return real_open(file, mode, *a, **k)
def snapshot(d):
    out = {}
    for r, ds, fs in os.walk(d):
        for n in ds + fs:
            p = os.path.join(r, n); s = os.lstat(p)
            out[os.path.relpath(p, d)] = (s.st_mode, s.st_size, s.st_mtime_ns, hashlib.sha256(real_open(p, 'rb').read()).hexdigest() if os.path.isfile(p) else None)
    s = os.lstat(d); out['.'] = (s.st_mode, s.st_mtime_ns)
    return out
os.chdir('/dev/shm/akvproto')
def run_tool(name):
    if name == 'colander':
        c = Colander('src', output='o_col', variables=['f2']); c.strain()
    elif name == 'chef':
        c = Chef('src', recipe='/tmp/probe/rec1.py', outfile='o_chef', serial=False); c.cook()
    elif name == 'mand_array':
        m = Mandoline('src', fields=['f1'], serial=False, verbose=0); m.slice(normal=1, pos=0.3, fformat='array', outfile='o_arr')
    elif name == 'mand_plt':
        m = Mandoline('src', fields=['f1'], serial=False, verbose=0); m.slice(normal=1, pos=0.3, fformat='plotfile', outfile='o_mplt')
    elif name == 'combine':
        combine(PlotfileCooker('src'), PlotfileCooker('src2'), 'o_comb')
    elif name == 'whip':
        sys.argv = ['whip', '-v', 'f1', '-o', 'o_whip', '-y', 'src']; whip.main()
rng = random.Random(1)
spec = make_spec(rng, nlevels=2, nfields=3, n0=(8, 8, 8), sizes=(4, 8), nfiles=2, shuffle=False)
shutil.rmtree('src', ignore_errors=True); write_plotfile('src', spec)
s2 = dict(spec); s2['fields'] = ['g0', 'g1', 'g2']; shutil.rmtree('src2', ignore_errors=True); write_plotfile('src2', s2)
SchedPool.log = []; SchedPool.chooser = lambda n, kind: list(range(n))
builtins.open = fopen; io.open = fopen
try:
    for tool in ['colander', 'chef', 'mand_array', 'mand_plt', 'combine', 'whip']:
        for o in [x for x in os.listdir('.') if x.startswith('o_')]:
            shutil.rmtree(o) if os.path.isdir(o) else os.remove(o)
        snap = snapshot('src'); INJ.__init__(); AUDIT['events'] = []; AUDIT['on'] = True
        quiet(run_tool, tool); AUDIT['on'] = False
        n_open, n_write = INJ.n_open, INJ.n_write
        outside = [e for e in AUDIT['events'] if not os.path.abspath(e[1]).startswith('/dev/shm/akvproto/o_')]
        swallowed = []; touched = 0; t = time.time()
        for kind, n in (('open', n_open), ('write', n_write)):
            for i in range(1, n + 1):
                for o in [x for x in os.listdir('.') if x.startswith('o_')]:
                    shutil.rmtree(o) if os.path.isdir(o) else os.remove(o)
                INJ.__init__(); setattr(INJ, 'fail_' + kind, i)
                try:
                    quiet(run_tool, tool); outcome = 'returned'
                except SystemExit as e: outcome = f'exit {e.code}'
                except BaseException as e: outcome = 'raised ' + type(e).__name__
                if INJ.fired and outcome in ('returned', 'exit 0', 'exit None'): swallowed.append((kind, i))
                if snapshot('src') != snap: touched += 1
        print(f"{tool:10s} opens-for-write {n_open:3d} writes {n_write:4d} audit-events {len(AUDIT['events']):3d} outside-allowed {outside[:2]} swallowed {swallowed[:3]} input-touched {touched} ({time.time()-t:.1f}s)")
finally:
    builtins.open = real_open; io.open = real_open
