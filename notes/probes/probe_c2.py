import random, shutil, os, sys, numpy as np, io, contextlib
sys.path.insert(0, '/tmp/probe')
from gen import *
import cantera as ct
from amr_kitchen.chef import Chef
def quiet(f, *a, **k):
    buf = io.StringIO()
    with contextlib.redirect_stdout(buf), contextlib.redirect_stderr(buf):
        return f(*a, **k)
os.chdir('/tmp/probe')
gas = ct.Solution('/repo/test_assets/drm19.yaml')
sp = [s.name for s in gas.species()]
fields = ['temp'] + [f'Y({s})' for s in sp] + ['extra']
rng = random.Random(4)
def mk(sizes, n0, name):
    def fill(l, lo, hi, shp):
        arr = np.zeros(shp)
        n = int(np.prod(shp[:-1]))
        arr[..., 0] = np.array([rng.uniform(300, 2000) for _ in range(n)]).reshape(shp[:-1])
        Y = np.array([[rng.random() for _ in sp] for _ in range(n)]); Y /= Y.sum(axis=1, keepdims=True)
        arr[..., 1:1+len(sp)] = Y.reshape(shp[:-1] + (len(sp),))
        arr[..., -1] = 7.0
        return arr
    spec = make_spec(rng, nlevels=2, n0=n0, sizes=sizes, nfiles=2, refine_frac=0.3, fields=fields, fill=fill)
    shutil.rmtree(name, ignore_errors=True); write_plotfile(name, spec)
mk((2, 4), (4, 4, 4), 'chA'); mk((2, 4), (4, 4, 4), 'chB')
def run(src, out, serial, P, rec='rec3.py', **kw):
    shutil.rmtree(out, ignore_errors=True)
    c = quiet(Chef, src, recipe=rec, outfile=out, serial=serial, mech='/repo/test_assets/drm19.yaml', pressure=P, **kw); quiet(c.cook)
    return read_plotfile(out)
import time
t=time.time(); a_par = run('chA', 'oA', False, 1.0); print('par', time.time()-t)
t=time.time(); b_par = run('chB', 'oB', False, 5.0); print('par', time.time()-t)
t=time.time(); b_ser = run('chB', 'oBs', True, 5.0); print('ser', time.time()-t)
d = max(np.max(np.abs(x - y) / np.abs(y)) for l1, l2 in zip(b_par['levels'], b_ser['levels']) for x, y in zip(l1['data'], l2['data']))
print('parallel-after-previous vs serial: max rel diff', d)
# builtin recipes vs cantera oracle
for rec, kw in [('HRR', {}), ('ENT', {}), ('SRi', {'species': ['H2', 'O2']}), ('SDi', {'species': ['CH4']}), ('RRi', {'reactions': [0, 5]})]:
    try:
        o = run('chB', 'oC', True, 2.0, rec=rec, **kw)
        r = read_plotfile('chB')
        d = r['levels'][0]['data'][0]; od = o['levels'][0]['data'][0]
        sa = ct.SolutionArray(gas, d.shape[:-1]); sa.TPY = d[..., 0], 2.0 * ct.one_atm * np.ones(d.shape[:-1]), d[..., 1:1+len(sp)]
        attr = Chef.cookbook[rec]; want = getattr(sa, attr)
        if rec in ('SRi', 'SDi'): want = want[..., [gas.species_index(s) for s in kw['species']]]
        if rec == 'RRi': want = want[..., kw['reactions']]
        if want.ndim == 3: want = want[..., None]
        print(rec, o['fields'], 'max rel diff', np.max(np.abs(od - want) / (np.abs(want) + 1e-300)))
    except Exception as e:
        print(rec, 'EXC', type(e).__name__, str(e)[:200])
