import random, shutil, os, sys, numpy as np, io, contextlib
sys.path.insert(0, '/tmp/probe')
from gen import *
from amr_kitchen.mandoline import Mandoline
def quiet(f, *a, **k):
    buf = io.StringIO()
    with contextlib.redirect_stdout(buf), contextlib.redirect_stderr(buf):
        return f(*a, **k)
os.makedirs('/dev/shm/akvproto', exist_ok=True); os.chdir('/dev/shm/akvproto')
def reference(r, fi, cn, p, L):
    """returns (value[nx,ny], strict_mask[nx,ny], glevels allowed list-of-sets as bitmask)"""
    cx, cy = [d for d in range(3) if d != cn]
    gs = r['grid_sizes'][L]; shape = (gs[cx], gs[cy])
    val = np.full(shape, np.nan); strict = np.zeros(shape, bool); lstar = np.full(shape, -1); near_finer = np.zeros(shape, bool); allowed = np.zeros(shape, int)
    lo_n = r['geo_lo'][cn]; hi_n = r['geo_hi'][cn]
    for l in range(L + 1):
        f = 2 ** (L - l); dx = r['dx'][l][cn]; n = r['grid_sizes'][l][cn]
        cent = lo_n + (np.arange(n) + 0.5) * dx
        for (blo, bhi), d in zip(r['levels'][l]['idx'], r['levels'][l]['data']):
            plo = lo_n + blo[cn] * dx; phi = lo_n + (bhi[cn] + 1) * dx
            sl = (slice(blo[cx] * f, (bhi[cx] + 1) * f), slice(blo[cy] * f, (bhi[cy] + 1) * f))
            if plo - dx / 2 <= p <= phi + dx / 2:
                allowed[sl] |= (1 << l)
            if not (plo <= p <= phi):
                if plo - dx / 2 <= p <= phi + dx / 2: near_finer[sl] = True   # marks pixels with a box at this level within half a cell (resolved below per level order)
                continue
            # this box contains p: it becomes L* for its pixels (finer levels overwrite later)
            a = np.moveaxis(d[..., fi], cn, 2)  # (cx, cy, n) ordering? need care
            order = [cx, cy, cn]; a = np.transpose(d[..., fi], order)
            kk = (p - lo_n) / dx - 0.5
            if p <= cent[0]: v = a[:, :, 0]; ok = True
            elif p >= cent[-1]: v = a[:, :, -1]; ok = True
            else:
                k = int(np.floor(kk)); 
                if abs(p - cent[k]) <= 1e-9 * dx: k0 = k1 = k
                elif k + 1 < n and abs(p - cent[k + 1]) <= 1e-9 * dx: k0 = k1 = k + 1
                else: k0, k1 = k, k + 1
                ok = blo[cn] <= k0 and k1 <= bhi[cn]
                if ok:
                    v0 = a[:, :, k0 - blo[cn]]; v1 = a[:, :, k1 - blo[cn]]
                    v = v0 if k0 == k1 else (v0 * (cent[k1] - p) + v1 * (p - cent[k0])) / (cent[k1] - cent[k0])
                else: v = np.full(a.shape[:2], np.nan)
            if p <= cent[0] or p >= cent[-1]:
                v = a[:, :, 0 - 0] if p <= cent[0] else a[:, :, -1]
            for ax in range(2): v = np.repeat(v, f, axis=ax)
            val[sl] = v; strict[sl] = ok; lstar[sl] = l; near_finer[sl] = False
    return val, strict & ~near_finer, allowed, lstar
rng = random.Random(int(sys.argv[1]) if len(sys.argv) > 1 else 5)
tot = dict(cases=0, strict_px=0, px=0, mism=0)
for trial in range(12):
    origin = [rng.choice([0.0, 2.0, -1.5]) for _ in range(3)]; length = [rng.choice([1.0, 2.0, 0.5]) for _ in range(3)]
    n0 = tuple(rng.choice([4, 8, 12]) for _ in range(3)); nl = rng.choice([1, 2, 3])
    spec = make_spec(rng, nlevels=nl, nfields=2, n0=n0, sizes=(4, 8), origin=origin, length=length, refine_frac=0.4, nfiles=2)
    shutil.rmtree('m7', ignore_errors=True); write_plotfile('m7', spec); r = read_plotfile('m7')
    for cn in range(3):
        for L in range(nl):
            dxf = r['dx'][L][cn]; lo = r['geo_lo'][cn]; n = r['grid_sizes'][L][cn]
            poss = [lo, r['geo_hi'][cn], lo + dxf * (rng.randrange(n) + 0.5), lo + dxf * rng.randrange(1, n), lo + rng.random() * (r['geo_hi'][cn] - lo), lo + dxf * (rng.randrange(n) + 0.25), lo + dxf / 4, r['geo_hi'][cn] - dxf / 4]
            for p in poss:
                m = quiet(Mandoline, 'm7', fields=['f1', 'grid_level'], limit_level=L, serial=True, verbose=0)
                out = quiet(m.slice, normal=cn, pos=p, fformat='return')
                val, strict, allowed, lstar = reference(r, 1, cn, p, L)
                got = out['f1'].T
                bad = strict & ~np.isclose(got, val, rtol=1e-9, atol=1e-9)
                tot['cases'] += 1; tot['strict_px'] += strict.sum(); tot['px'] += strict.size; tot['mism'] += bad.sum()
                if bad.any():
                    ij = np.argwhere(bad)[0]; print('MISMATCH', trial, cn, L, p, ij, got[tuple(ij)], val[tuple(ij)], lstar[tuple(ij)])
print(tot)
