import random, shutil, os, sys, numpy as np, itertools, io, contextlib, copy
sys.path.insert(0, '/tmp/probe')
from gen import *
from amr_kitchen.mandoline import Mandoline
from amr_kitchen.taste import Taster
def quiet(f, *a, **k):
    buf = io.StringIO()
    with contextlib.redirect_stdout(buf), contextlib.redirect_stderr(buf):
        return f(*a, **k)
os.chdir('/tmp/probe')
rng = random.Random(11)
# ---- C08 2D
def covering(r, fi, L):
    nd = r['ndims']
    shape = [g for g in r['grid_sizes'][L]]
    out = np.full(shape, np.nan); lvl = np.full(shape, -1.0)
    for l in range(L + 1):
        f = 2 ** (L - l)
        for (lo, hi), d in zip(r['levels'][l]['idx'], r['levels'][l]['data']):
            a = d[..., fi]
            for ax in range(nd): a = np.repeat(a, f, axis=ax)
            sl = tuple(slice(lo[k] * f, (hi[k] + 1) * f) for k in range(nd))
            out[sl] = a; lvl[sl] = l
    return out, lvl
for trial in range(4):
    spec = make_spec(rng, ndims=2, nlevels=rng.choice([1, 2, 3]), nfields=3, n0=(8, 12), sizes=(4, 8), origin=[1.0, -3.0], length=[2.0, 3.0], nfiles=3)
    shutil.rmtree('d2', ignore_errors=True); write_plotfile('d2', spec)
    r = read_plotfile('d2')
    for L in range(len(spec['levels'])):
        for serial in (True, False):
            m = quiet(Mandoline, 'd2', fields=['f2', 'f0', 'grid_level'], limit_level=L, serial=serial, verbose=0)
            out = quiet(m.slice, fformat='return')
            errs = []
            for name in ('f2', 'f0'):
                want, lvl = covering(r, r['fields'].index(name), L)
                if out[name].shape != want.T.shape or not np.array_equal(out[name], want.T): errs.append(name)
            if not np.array_equal(out['grid_level'], lvl.T): errs.append('grid_level')
            dx = [(r['geo_hi'][d] - r['geo_lo'][d]) / r['grid_sizes'][L][d] for d in range(2)]
            xs = r['geo_lo'][0] + (np.arange(r['grid_sizes'][L][0]) + .5) * dx[0]
            ys = r['geo_lo'][1] + (np.arange(r['grid_sizes'][L][1]) + .5) * dx[1]
            if not (np.allclose(out['x'], xs, rtol=1e-12) and np.allclose(out['y'], ys, rtol=1e-12)): errs.append('coords')
            print('2D trial', trial, 'L', L, 'serial', serial, 'errs', errs)
# ---- C16 plotfile format
origin = [2.0, -1.0, 0.5]; length = [1.0, 2.0, 1.0]; n0 = (8, 8, 8)
def mkfill(cn):
    def fill(l, lo, hi, shp):
        arr = np.zeros(shp)
        dx = [length[d] / (n0[d] * 2**l) for d in range(3)]
        idx = np.meshgrid(*[np.arange(lo[d], hi[d] + 1) for d in range(3)], indexing='ij')
        c = origin[cn] + (idx[cn] + 0.5) * dx[cn]
        arr[..., 0] = 3.0 + 2.0 * c
        arr[..., 1] = 1000 * l + idx[(cn+1)%3] * 7 + idx[(cn+2)%3] * 0.01
        return arr
    return fill
for cn in range(3):
  for nl in (1, 2, 3):
    spec = make_spec(rng, nlevels=nl, nfields=2, n0=n0, sizes=(4, 8), origin=origin, length=length, fill=mkfill(cn), refine_frac=0.9)
    shutil.rmtree('m3', ignore_errors=True); write_plotfile('m3', spec)
    lo = origin[cn]; dxf = length[cn] / (n0[cn] * 2**(nl-1))
    for name, pos in {'rand': lo + length[cn]*0.37123, 'centre': lo + dxf * 5.5}.items():
        shutil.rmtree('m3out', ignore_errors=True)
        try:
            m = quiet(Mandoline, 'm3', fields=['f0', 'f1'], serial=True, verbose=0)
            quiet(m.slice, normal=cn, pos=pos, fformat='plotfile', outfile='m3out')
            ok = quiet(lambda: bool(Taster('m3out', nofail=True, verbose=0, boxes_coordinates=True)))
            o = read_plotfile('m3out')
            aff = max(np.max(np.abs(d[..., 0] - (3 + 2 * pos))) for lev in o['levels'] for d in lev['data'])
            tagerr = 0
            for l, lev in enumerate(o['levels']):
                for (blo, bhi), d in zip(lev['idx'], lev['data']):
                    ii = np.meshgrid(np.arange(blo[0], bhi[0]+1), np.arange(blo[1], bhi[1]+1), indexing='ij')
                    cx, cy = [i for i in range(3) if i != cn]
                    idx3 = {cx: ii[0], cy: ii[1]}
                    want = 1000 * l + idx3[(cn+1)%3] * 7 + idx3[(cn+2)%3] * 0.01
                    tagerr = max(tagerr, np.max(np.abs(d[..., 1] - want)))
            print('C16 cn', cn, 'nl', nl, name, 'taste', ok, 'boxes', [len(l['idx']) for l in o['levels']], 'affine_err', aff, 'tag_err', tagerr)
        except Exception as e:
            print('C16 cn', cn, 'nl', nl, name, 'EXC', type(e).__name__, str(e)[:120])
