"""Prototype: schedule-owning pool substituted for multiprocessing.Pool / pathos / chk2plt.Pool, driven by hypothesis data draws."""
import sys, os, io, contextlib, pickle, shutil, random, hashlib, time
sys.path.insert(0, '/tmp/probe')
import numpy as np, dill
import multiprocessing
from hypothesis import given, settings, strategies as st, seed, HealthCheck, Phase
from gen import *

class SchedPool:
    """In-process pool: tasks run in an order chosen by `chooser(n, kind)`; map/imap return in submission order,
    imap_unordered yields in a second chosen order. Arguments/results cross a pickle boundary like a real pool."""
    chooser = None; log = None; dumps = staticmethod(pickle.dumps); loads = staticmethod(pickle.loads)
    def __init__(self, *a, **k): pass
    def _run(self, f, it, kind):
        tasks = list(it); n = len(tasks)
        order = SchedPool.chooser(n, kind + ':exec')
        res = [None] * n
        for i in order:
            arg = self.loads(self.dumps(tasks[i]))
            res[i] = self.loads(self.dumps(f(arg)))
        SchedPool.log.append((kind, n, list(order)))
        return res
    def map(self, f, it): return self._run(f, it, 'map')
    def imap(self, f, it): return iter(self._run(f, it, 'imap'))
    def imap_unordered(self, f, it):
        res = self._run(f, it, 'imap_unordered'); order = SchedPool.chooser(len(res), 'completion')
        return iter([res[i] for i in order])
    def __enter__(self): return self
    def __exit__(self, *a): return False
    def close(self): pass
    def join(self): pass
    def terminate(self): pass
    def clear(self): pass
class DillSchedPool(SchedPool):
    dumps = staticmethod(dill.dumps); loads = staticmethod(dill.loads)

import amr_kitchen.chef.chef as chefmod, amr_kitchen.chk2plt.chk2plt as c2p
multiprocessing.Pool = SchedPool; chefmod.Pool = DillSchedPool; c2p.Pool = SchedPool
from amr_kitchen.colander import Colander
from amr_kitchen.chef import Chef
import amr_kitchen.whip.cli as whip

def quiet(f, *a, **k):
    buf = io.StringIO()
    with contextlib.redirect_stdout(buf), contextlib.redirect_stderr(buf):
        return f(*a, **k)
def treehash(d):
    h = hashlib.sha256()
    for r, ds, fs in sorted(os.walk(d)):
        ds.sort()
        for f in sorted(fs):
            h.update(os.path.relpath(os.path.join(r, f), d).encode()); h.update(open(os.path.join(r, f), 'rb').read())
    return h.hexdigest()
os.makedirs('/dev/shm/akvproto', exist_ok=True); os.chdir('/dev/shm/akvproto')
rng = random.Random(1)
spec = make_spec(rng, nlevels=2, nfields=3, n0=(8, 8, 8), sizes=(4, 8), nfiles=3)
shutil.rmtree('src', ignore_errors=True); write_plotfile('src', spec)
SchedPool.log = []; SchedPool.chooser = lambda n, kind: list(range(n))
shutil.rmtree('ref', ignore_errors=True); c = quiet(Colander, 'src', output='ref', variables=['f2', 'f0']); quiet(c.strain); ref = treehash('ref')
shutil.rmtree('refc', ignore_errors=True); c = quiet(Chef, 'src', recipe='/tmp/probe/rec1.py', outfile='refc', serial=True); quiet(c.cook); refc = treehash('refc')
print('identity log', SchedPool.log)
count = [0]
@seed(12345)
@settings(max_examples=60, deadline=None, database=None, suppress_health_check=list(HealthCheck))
@given(st.data())
def test(data):
    SchedPool.log = []
    SchedPool.chooser = lambda n, kind: data.draw(st.permutations(list(range(n))), label=kind)
    shutil.rmtree('out', ignore_errors=True); c = quiet(Colander, 'src', output='out', variables=['f2', 'f0']); quiet(c.strain)
    assert treehash('out') == ref
    shutil.rmtree('outc', ignore_errors=True); c = quiet(Chef, 'src', recipe='/tmp/probe/rec1.py', outfile='outc', serial=False); quiet(c.cook)
    assert treehash('outc') == refc
    count[0] += 1
t = time.time(); test(); print('examples', count[0], 'in %.2fs' % (time.time() - t), 'last log', SchedPool.log)
