import random, shutil, os, sys, numpy as np, itertools, io, contextlib, copy
sys.path.insert(0, '/tmp/probe')
from gen import *
from amr_kitchen import PlotfileCooker
from amr_kitchen.taste import Taster
from amr_kitchen.combine import combine
def quiet(f, *a, **k):
    buf = io.StringIO()
    with contextlib.redirect_stdout(buf), contextlib.redirect_stderr(buf):
        return f(*a, **k)
os.makedirs('/dev/shm/akvproto', exist_ok=True); os.chdir('/dev/shm/akvproto')
rng = random.Random(int(sys.argv[1]) if len(sys.argv) > 1 else 7)
def relayout(spec, rng, mode, nfiles=2, fields=None):
    s = copy.deepcopy(spec)
    if fields: s['fields'] = fields
    nf = len(s['fields'])
    for l, lev in enumerate(s['levels']):
        nb = len(lev['boxes'])
        if mode == 'reorder':
            lev['order'] = {fi: rng.sample(range(lev['files'].count(fi)), lev['files'].count(fi)) for fi in set(lev['files'])}
        elif mode == 'refile':
            lev['files'] = [rng.randrange(nfiles) for _ in range(nb)]
            lev['order'] = {fi: rng.sample(range(lev['files'].count(fi)), lev['files'].count(fi)) for fi in set(lev['files'])}
        elif mode == 'mono_refile':
            lev['files'] = [rng.randrange(nfiles) for _ in range(nb)]; lev['order'] = {}
        lev['data'] = [np.array([rng.uniform(-5,5) for _ in range(int(np.prod(d.shape[:-1]))*nf)]).reshape(d.shape[:-1]+(nf,)) for d in lev['data']]
    return s
def check(p1, p2, out, v1=None, v2=None):
    a = read_plotfile(p1); b = read_plotfile(p2); o = read_plotfile(out)
    s1 = v1 or a['fields']; s2 = [f for f in (v2 or b['fields']) if f not in s1]
    errs = []
    if o['fields'] != s1 + s2: errs.append(('fields', o['fields']))
    for l in range(a['max_level']+1):
        A=a['levels'][l]; B=b['levels'][l]; O=o['levels'][l]
        if O['idx'] != A['idx']: errs.append(('idx', l)); continue
        for k in range(len(A['idx'])):
            kb = B['idx'].index(A['idx'][k])
            want = np.concatenate([A['data'][k][..., [a['fields'].index(f) for f in s1]], B['data'][kb][..., [b['fields'].index(f) for f in s2]]], axis=-1)
            if not np.array_equal(want, O['data'][k]): errs.append(('data', l, k))
            wmin = [A['mins'][k][a['fields'].index(f)] for f in s1] + [B['mins'][kb][b['fields'].index(f)] for f in s2]
            if wmin != O['mins'][k]: errs.append(('mins', l, k))
    return errs
nbad = 0; n = 0
for trial in range(10):
  for mono1 in (True, False):
    for mode in ['same', 'reorder', 'refile', 'mono_refile']:
      base = make_spec(rng, nlevels=rng.choice([1, 2, 3]), nfields=2, nfiles=rng.choice([1, 2, 3]), shuffle=not mono1, fields=['a','b'])
      s2 = relayout(base, rng, mode, fields=['c','b','d'])
      for d in ('c1','c2','cout'): shutil.rmtree(d, ignore_errors=True)
      write_plotfile('c1', base); write_plotfile('c2', s2)
      v1, v2 = rng.choice([(None, None), (['b'], ['d', 'b', 'c']), (['b', 'a'], ['c'])])
      try:
        quiet(combine, PlotfileCooker('c1'), PlotfileCooker('c2'), 'cout', vars1=None if v1 is None else ' '.join(v1), vars2=v2)
        ok = quiet(lambda: bool(Taster('cout', nofail=True, verbose=0)))
        errs = check('c1','c2','cout', v1, v2); n += 1
        if not ok or errs: nbad += 1; print('plt1 mono' if mono1 else 'plt1 shuffled', mode, 'taste', ok, 'errs', len(errs), errs[:3])
      except Exception as e:
        nbad += 1; print('plt1 mono' if mono1 else 'plt1 shuffled', mode, 'EXC', type(e).__name__, str(e)[:120])
print('cases', n, 'bad', nbad)
