import random, shutil, os, sys, numpy as np, itertools, io, contextlib, copy, math
sys.path.insert(0, '/tmp/probe')
from gen import *
from amr_kitchen import PlotfileCooker
from amr_kitchen.pestle import volume_integral
def quiet(f, *a, **k):
    buf = io.StringIO()
    with contextlib.redirect_stdout(buf), contextlib.redirect_stderr(buf):
        return f(*a, **k)
os.chdir('/tmp/probe')
rng = random.Random(int(sys.argv[1]))
def ref_integral(r, fi, L, vf=None):
    tot = 0.0
    for l in range(L + 1):
        dV = np.prod(r['dx'][l])
        cov = None
        if l < L:
            cov = np.zeros(r['grid_sizes'][l], bool)
            for lo, hi in r['levels'][l+1]['idx']:
                cov[tuple(slice(lo[d]//2, hi[d]//2 + 1) for d in range(3))] = True
        for (lo, hi), d in zip(r['levels'][l]['idx'], r['levels'][l]['data']):
            v = d[..., fi].copy()
            if vf is not None: v = v * d[..., vf]
            if cov is not None:
                v = v[~cov[tuple(slice(lo[k], hi[k]+1) for k in range(3))]]
            tot += float(np.sum(v)) * dV
    return tot
for sizes, n0 in [((4, 8), (8, 8, 8)), ((8,), (16, 16, 8)), ((8, 12), (24, 24, 24)), ((4, 6), (12, 12, 12)), ((2, 4), (8, 8, 4))]:
  for nl in (1, 2, 3):
    spec = make_spec(rng, nlevels=nl, nfields=3, n0=n0, sizes=sizes, fields=['a', 'volFrac', 'c'], refine_frac=0.4, length=[1.0, 2.0, 0.5])
    shutil.rmtree('pe', ignore_errors=True); write_plotfile('pe', spec)
    r = read_plotfile('pe')
    try:
        pck = quiet(PlotfileCooker, 'pe', ghost=True)
        got = quiet(volume_integral, pck, 'a'); want = ref_integral(r, 0, nl-1)
        gotv = quiet(volume_integral, pck, 'a', use_volfrac=True); wantv = ref_integral(r, 0, nl-1, 1)
        line = f"sizes {sizes} nl {nl} full: rel_err {abs(got-want)/abs(want):.2e} volfrac rel_err {abs(gotv-wantv)/abs(wantv):.2e}"
        for lim in range(nl):
            g = quiet(volume_integral, pck, 'a', limit_level=lim); w = ref_integral(r, 0, lim)
            line += f" | lim{lim} rel_err {abs(g-w)/abs(w):.2e}"
        # limit via reader
        for lim in range(nl):
            p2 = quiet(PlotfileCooker, 'pe', ghost=True, limit_level=lim)
            g = quiet(volume_integral, p2, 'a'); w = ref_integral(r, 0, lim)
            line += f" | pcklim{lim} {abs(g-w)/abs(w):.2e}"
        print(line)
    except Exception as e:
        import traceback
        print('sizes', sizes, 'nl', nl, 'EXC', type(e).__name__, str(e)[:150])
