"""Prototype: reference validator + corruption grammar under Hypothesis, differential against real taste (C04/C20 design check)."""
import sys, os, io, re, json, shutil, contextlib, collections, time, hashlib
sys.path.insert(0, '/tmp/probe')
import numpy as np
from hypothesis import given, settings, seed, HealthCheck, strategies as st
import multiprocessing
from proto_plotgen import mesh_specs, build_mesh
from proto_e2e import materialise, FakePool, quiet   # sets multiprocessing.Pool = FakePool, chdir to scratch
from amr_kitchen.taste import Taster
from amr_kitchen import PlotfileCooker
FABRE = re.compile(rb"\(\(([-\d,]+)\) \(([-\d,]+)\) \(([-\d,]+)\)\) (\d+)\n$")
def ref_validate(path, limit=None):
    """independent structural validation; returns list of (class, detail)"""
    bad = []
    try:
        L = open(os.path.join(path, 'Header')).read().split('\n')
        nf = int(L[1]); nd = int(L[2 + nf]); maxlev = int(L[4 + nf])
    except Exception as e: return [('header-unparsable', str(e))]
    lim = maxlev if limit is None else limit
    for l in range(lim + 1):
        ld = os.path.join(path, f'Level_{l}')
        try: t = open(os.path.join(ld, 'Cell_H')).read().split('\n')
        except Exception as e: bad.append(('missing-level-header', l)); continue
        try:
            assert int(t[2]) == nf
            nb = int(t[4].split()[0].lstrip('('))
            idx = []
            for b in range(nb):
                toks = t[5 + b].split(); assert len(toks) == 3
                lo = [int(x) for x in toks[0].replace('(', '').replace(')', '').split(',')]; hi = [int(x) for x in toks[1].replace('(', '').replace(')', '').split(',')]
                assert len(lo) == nd and len(hi) == nd; idx.append((lo, hi))
            assert int(t[5 + nb + 1]) == nb
            fod = []
            for b in range(nb):
                toks = t[5 + nb + 2 + b].split(); assert len(toks) == 3; fod.append((toks[1], int(toks[2])))
        except Exception as e:
            bad.append(('level-header-entry', (l, repr(e)[:60]))); continue
        byfile = collections.defaultdict(list)
        for b, (fn, off) in enumerate(fod): byfile[fn].append((off, b))
        for fn, lst in byfile.items():
            fp = os.path.join(ld, fn)
            if not os.path.isfile(fp): bad.append(('missing-file', (l, fn))); continue
            d = open(fp, 'rb').read(); size = len(d)
            ends = {}
            for off, b in lst:
                if off < 0 or off >= size: bad.append(('offset-unreadable', (l, b))); continue
                e = d.find(b'\n', off)
                m = FABRE.search(d[off:e + 1]) if e >= 0 else None
                if not m: bad.append(('offset-unreadable', (l, b))); continue
                lo = [int(x) for x in m.group(1).split(b',')]; hi = [int(x) for x in m.group(2).split(b',')]; nc = int(m.group(4))
                if (lo, hi) != idx[b]: bad.append(('index-mismatch', (l, b)))
                if nc != nf: bad.append(('ncomp-mismatch', (l, b)))
                ends[b] = (off, e + 1 + 8 * nc * int(np.prod([h - a + 1 for a, h in zip(lo, hi)])))
            # tiling: FAB i (by offset) must end where FAB i+1's *header line* starts; the last must end at EOF; the first header must start the file
            seq = sorted((ends[b][0], ends[b][1], b) for off, b in lst if b in ends)
            if len(seq) == len(lst) and seq:
                # header start of each FAB = position of 'FAB' at or before recorded offset on the same line
                starts = [s if d.startswith(b'FAB', s) else d.rfind(b'FAB', max(0, s - 100), s + 3) for s, _, _ in seq]
                if starts[0] != 0: bad.append(('layout', (l, fn, 'prefix')))
                for i in range(len(seq) - 1):
                    if seq[i][1] != starts[i + 1]: bad.append(('layout', (l, fn, i)))
                if seq[-1][1] != size: bad.append(('layout', (l, fn, 'eof')))
    return bad
# ---- corruption operators: (name, fn(path, spec_info, draw)) ----
def cellh(p, l): return os.path.join(p, f'Level_{l}', 'Cell_H')
def info(p):
    L = open(os.path.join(p, 'Header')).read().split('\n'); nf = int(L[1]); maxlev = int(L[4 + nf]); out = []
    for l in range(maxlev + 1):
        t = open(cellh(p, l)).read().split('\n'); nb = int(t[4].split()[0].lstrip('('))
        fod = [(t[5 + nb + 2 + b].split()[1], int(t[5 + nb + 2 + b].split()[2])) for b in range(nb)]
        out.append(dict(nb=nb, fod=fod))
    return out
def rw(path, f):
    t = open(path).read().split('\n'); f(t); open(path, 'w').write('\n'.join(t))
def op_apply(p, op):
    k = op['kind']; inf = info(p); l = op['lv'] % len(inf); nb = inf[l]['nb']; b = op['box'] % nb; fn, off = inf[l]['fod'][b]; fp = os.path.join(p, f'Level_{l}', fn); amt = op['amt']
    if k == 'del_file': os.remove(fp)
    elif k == 'truncate': os.truncate(fp, max(0, os.path.getsize(fp) - amt))
    elif k == 'extend': open(fp, 'ab').write(b'\0' * amt)
    elif k == 'insert': d = open(fp, 'rb').read(); pos = min(len(d), off + 100 + amt); open(fp, 'wb').write(d[:pos] + b'\x01' * amt + d[pos:])
    elif k == 'remove': d = open(fp, 'rb').read(); pos = min(len(d) - amt, off + 100); open(fp, 'wb').write(d[:pos] + d[pos + amt:])
    elif k == 'fab_hi+1':
        d = open(fp, 'rb').read(); e = d.index(b'\n', off); h = d[off:e]; m = re.search(rb"\) \(([-\d,]+)\) \(", h); hi = m.group(1).split(b','); hi[0] = str(int(hi[0]) + 1).encode()
        open(fp, 'wb').write(d[:off] + h[:m.start(1)] + b','.join(hi) + h[m.end(1):] + d[e:])
    elif k == 'fab_ncomp': d = open(fp, 'rb').read(); e = d.index(b'\n', off); open(fp, 'wb').write(d[:e] + b'7' + d[e:])
    elif k == 'cellh_shift': rw(cellh(p, l), lambda t: t.__setitem__(5 + b, re.sub(r"\((-?\d+)", lambda m: '(' + str(int(m.group(1)) + 1), t[5 + b], count=2)))
    elif k == 'cellh_delbox': rw(cellh(p, l), lambda t: t.__delitem__(5 + b))
    elif k == 'cellh_delfod': rw(cellh(p, l), lambda t: t.__delitem__(5 + nb + 2 + b))
    elif k == 'cellh_garble': rw(cellh(p, l), lambda t: t.__setitem__(5 + b, t[5 + b].replace(',', ';', 1)))
    elif k == 'off_data': rw(cellh(p, l), lambda t: t.__setitem__(5 + nb + 2 + b, ' '.join(t[5 + nb + 2 + b].split()[:2] + [str(off + 150 + amt)])))
    elif k == 'off_eof': rw(cellh(p, l), lambda t: t.__setitem__(5 + nb + 2 + b, ' '.join(t[5 + nb + 2 + b].split()[:2] + [str(10 ** 8)])))
    elif k == 'off_other': rw(cellh(p, l), lambda t: t.__setitem__(5 + nb + 2 + b, t[5 + nb + 2 + (b + 1) % nb]))
    elif k == 'fod_nofile': rw(cellh(p, l), lambda t: t.__setitem__(5 + nb + 2 + b, t[5 + nb + 2 + b].replace('Cell_D_', 'Cell_X_')))
    elif k == 'off_prefix': rw(cellh(p, l), lambda t: t.__setitem__(5 + nb + 2 + b, ' '.join(t[5 + nb + 2 + b].split()[:2] + [str(off + 1 + amt % 40)])))
    elif k == 'ws': rw(cellh(p, l), lambda t: t.__setitem__(5 + b, t[5 + b].replace(') (', ')  (') + '  '))
    elif k == 'swap_pairs':
        c = (b + 1) % nb
        def f(t): t[5 + b], t[5 + c] = t[5 + c], t[5 + b]; t[5 + nb + 2 + b], t[5 + nb + 2 + c] = t[5 + nb + 2 + c], t[5 + nb + 2 + b]
        rw(cellh(p, l), f)
    elif k == 'payload': d = bytearray(open(fp, 'rb').read()); pos = min(len(d) - 1, off + 130 + amt); d[pos] ^= 0x55; open(fp, 'wb').write(bytes(d))
KINDS_BAD = ['del_file', 'truncate', 'extend', 'insert', 'remove', 'fab_hi+1', 'fab_ncomp', 'cellh_shift', 'cellh_delbox', 'cellh_delfod', 'cellh_garble', 'off_data', 'off_eof', 'off_other', 'fod_nofile']
KINDS_SOFT = ['off_prefix', 'ws', 'swap_pairs', 'payload']
ops = st.fixed_dictionaries(dict(kind=st.sampled_from(KINDS_BAD + KINDS_SOFT), lv=st.integers(0, 3), box=st.integers(0, 40), amt=st.sampled_from([1, 3, 8, 64])))
@st.composite
def cases(draw):
    ms = draw(mesh_specs(max_cells=1500)); return dict(mesh=ms, nfields=draw(st.integers(1, 3)), ops=draw(st.lists(ops, min_size=0, max_size=2)), limit=draw(st.one_of(st.none(), st.integers(0, ms['nlev'] - 1))))
stats = collections.Counter(); disagreements = []
def check_case(case):
    shutil.rmtree('src', ignore_errors=True); materialise(case, 'src')
    applied = []
    for op in case['ops']:
        try: op_apply('src', op); applied.append(op['kind'])
        except Exception as e: stats['op-not-applicable'] += 1
    inc = ref_validate('src', case['limit'])
    buf = io.StringIO()
    with contextlib.redirect_stdout(buf), contextlib.redirect_stderr(buf):
        try: nofail = bool(Taster('src', limit_level=case['limit'], nofail=True, verbose=0)); raised_nofail = False
        except BaseException as e: nofail = None; raised_nofail = True
        try: Taster('src', limit_level=case['limit'], verbose=0); fail_raises = False
        except Exception: fail_raises = True
    stats['evaluations'] += 1
    stats['ref-inconsistent' if inc else 'ref-consistent'] += 1
    if not case['ops']: stats['pristine'] += 1
    v = []
    if inc:
        if raised_nofail: v.append('raised in nofail mode')
        elif nofail is not False: v.append(f'accepted although reference finds {inc[:2]}')
        if not fail_raises: v.append('failing mode did not raise')
    else:
        stats['consistent+accepted' if nofail else 'consistent+rejected'] += 1
        if not nofail and not applied: v.append('pristine plotfile rejected')
        if nofail and applied: stats['survivors'] += 1; [stats.update({'survivor:' + a: 1}) for a in applied]
        if not nofail and applied: stats.update({'consistent-but-rejected:' + '+'.join(applied): 1}); disagreements.append(case)
    return v
if __name__ == '__main__':
    last = {}
    @seed(int(os.environ.get('VERIF_SEED', '1')))
    @settings(max_examples=int(sys.argv[1]) if len(sys.argv) > 1 else 500, deadline=None, database=None, report_multiple_bugs=False, suppress_health_check=list(HealthCheck))
    @given(cases())
    def t(case):
        v = check_case(case)
        if v: last['c'] = case; last['v'] = v; raise AssertionError(v[0])
    t0 = time.time()
    try: t(); print('held')
    except AssertionError: print('VIOLATION', json.dumps(last['c']), last['v'])
    print('%.1fs' % (time.time() - t0))
    for k, v in sorted(stats.items()): print(f'  {k:48s} {v}')
    for c in disagreements[:3]: print('DISAGREE', json.dumps(c))
