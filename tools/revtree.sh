#!/bin/bash
# usage: tools/revtree.sh <commit> <dir>   -> scratch copy of /repo's working tree with <commit> reverted (for checking that a check catches the original defect)
set -e
d=$2; rm -rf "$d"; mkdir -p "$d"
cp -r /repo/amr_kitchen "$d/"; ln -s /repo/test_assets "$d/test_assets"
git -C /repo show "$1" -- amr_kitchen | (cd "$d" && patch -R -p1 -s)
echo "$d: reverted $1"
