#!/venv/bin/python
"""Print the markdown table of findings (DESIGN.md section 5b) from known_findings.json and corpus/."""
import glob, json, os, re
VERIF = os.path.dirname(os.path.dirname(os.path.abspath(__file__)))
doc = json.load(open(os.path.join(VERIF, "known_findings.json")))
print("| # | property | status | what failed | pinned reproduction (fails with the commit reverted / on the pre-fix tree, holds on HEAD) |")
print("|---|---|---|---|---|")
for f in doc["findings"]:
    n = int(f["id"][1:])
    pins = sorted(os.path.relpath(p, VERIF) for p in glob.glob(os.path.join(VERIF, "corpus", "*", f"f{n:02d}_*.json")))
    status = f"fixed `{f['commit']}`" if f["status"] == "fixed" else "open"
    print(f"| {f['id']} | {', '.join(f['properties'])} | {status} | {f['what']} | "
          f"{', '.join(pins) or '(covered by the generated search; no pinned case)'} |")
