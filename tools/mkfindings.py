#!/venv/bin/python
"""Regenerate known_findings.json from the table below (hand-maintained; never written at run time by a check)."""
import json, os
VERIF = os.path.dirname(os.path.dirname(os.path.abspath(__file__)))
FIXED = [
 # id, properties, commit, what failed
 ("F1",  ["C01", "C15"], "ec90b0e", "field slice with start > 0 was applied twice: pck[1:4] of five fields returned two fields"),
 ("F2",  ["C01"], "f4c857d", "negative field index / index list read bytes located before the requested field"),
 ("F31", ["C01"], "8ac13bd", "numpy integer box index returned None instead of the box"),
 ("F32", ["C01"], "0eee850", "field slice with a negative step silently returned other fields (and another count of them)"),
 ("F33", ["C01"], "8917768", "descending / unsorted field index list silently returned unrelated data of the expected shape"),
 ("F34", ["C01"], "0eef8cf", "empty field selection (pck[1:0]) returned one component of unrelated data"),
 ("F30", ["C19"], "8eac8bd", "point query on a plotfile whose domain origin is not zero returned 0.0"),
 ("F3",  ["C03"], "13eb77a", "taste with binary_data=True and binary_headers or binary_shape off raised NameError, and silently skipped the data validation with both on (taste_binary_data was not runnable)"),
 ("F9",  ["C09"], "a5ac49a", "pestle with a level limit skipped the coarser levels and integrated the reader's finest level"),
 ("F10", ["C09"], "e5d41ae", "occupancy map at the resolution of the smallest box over-masked coarse cells for 16/24-cell boxes or boxes offset by half the smallest box"),
 ("F11", ["C10"], "56ada2f", "whip saved an all-zero grid for every plotfile (bytes header passed to a str parser, error swallowed)"),
 ("F12", ["C10"], "357c4d1", "whip --limit_level was parsed and ignored"),
 ("F13", ["C11"], "71e0aea", "chef HRR/ENT wrote FAB headers with one component too few (invalid plotfile)"),
 ("F35", ["C11"], "87bcfcd", "chef with a callable recipe crashed in cook(): output field names stored under a misspelt attribute"),
 ("F38", ["C11"], "395060b", "chef with a callable recipe raised AttributeError on the file-name test before reaching the callable branch"),
 ("F39", ["C11"], "1b30dd4", "chef HRR / ENT with kept fields raised in np.concatenate (3D new field joined to 4D kept data)"),
 ("F55", ["C11", "C14"], "2c5d0c1", "chef wrote the array returned by a user recipe as it is when no field is kept: a recipe returning a boolean mask, integer flags or float32 gave binary files with the wrong byte count (invalid plotfile)"),
 ("F14", ["C11", "C14"], "01c3a28", "chef wrote kept-then-new data under new-then-kept names (user recipes) or without the kept names (built-ins)"),
 ("F15", ["C11"], "9cda633", "chef cleaned temperature / mass fractions in place, so kept temp and Y(O2) differed from the input"),
 ("F16", ["C12"], "e66a931", "second parallel chef run in one process reused pathos workers holding the first run's pressure and solution arrays"),
 ("F51", ["C12"], "01b8b10", "a parallel chef run whose worker raised (truncated input) left its pathos workers cached: the next parallel Chef of the process computed at the failed run's pressure"),
 ("F52", ["C12"], "dfb712f", "chk2plt iterated over Pool().imap(...) without keeping the pool referenced: with real pools the conversion blocked forever about once in a few hundred small conversions (1 hang in 480 before the repair, 0 in 480 after; seen by the real-pool tier only as an inconclusive time-out)"),
 ("F17", ["C13"], "b54633b", "chef default output with a trailing slash on the input landed inside the input plotfile"),
 ("F4",  ["C06", "C14"], "1c13bfd", "combine paired boxes / offsets in header order while scanning files sequentially: wrong data whenever a binary file is not stored in header order (mode switch was a == typo)"),
 ("F40", ["C06"], "a0b2e20", "combine --vars2 given on the command line (a string) was iterated character by character: every selection of the second input was refused"),
 ("F41", ["C17"], "a3459b9", "chk2plt --species parsed the names with type=int: a species list could not be given on the command line"),
 ("F42", ["C13"], "31f187c", "pestle command line turned every read error (missing level header, corrupted header) into a 'not supported' message and exit status 0"),
 ("F43", ["C13"], "2098dcf", "whip command line exited with status 0 for a 2D plotfile although nothing was written"),
 ("F44", ["C13", "C10"], "000d5e3", "whip ended its per-file read loop on any exception: a truncated binary file gave a grid with zeros for the unread boxes and a normal exit"),
 ("F45", ["C13", "C10"], "cd37d94", "whip on a binary file cut exactly at a box boundary (last boxes missing) returned normally and left zeros for the missing boxes: the boxes found were never compared with the level header"),
 ("F46", ["C13"], "90f65f3", "chef on an input binary file cut after its first box returned normally: the single box found was broadcast to every box the level header lists for that file"),
 ("F47", ["C13"], "73637f4", "chk2plt on a state binary file cut after its first box returned normally: the single box found was broadcast to every box the level header lists for that file"),
 ("F48", ["C13"], "5d6e93a", "combine on a first input whose binary file is cut after its first box returned normally: the single offset found was broadcast to every box the level header lists for that file"),
 ("F50", ["C13"], "34750da", "chk2plt with the same-step plotfile beside the checkpoint as target_plotfile and the default output (chk2plt -c chk00010 -p plt00010) wrote its Header, level headers and binaries over that input plotfile"),
 ("F54", ["C05", "C06", "C11", "C14"], "8478b87", "colander, chef and combine on a plotfile whose Header states other level directory names than Level_<n> (AMReX levelPrefix): the output Header hard-coded Level_<n>/Cell while the data went to the stated names (combine could not open its output files)"),
 ("F21", ["C13"], "b455f93", "combine default output with a trailing slash on input 1 was input 2 itself (its Header overwritten)"),
 ("F6",  ["C07"], "a55b6fc", "mandoline default position was (high-low)/2, outside the domain for shifted origins -> uninitialised image"),
 ("F49", ["C07", "C16"], "1fc4943", "slice plane within round-off of the last / first cell centre of a box (box bounds carrying 1 ulp of round-off): treated as one-sided, the other interpolation side was uninitialised memory"),
 ("F53", ["C07", "C16"], "723f4f4", "slice plane on a cell centre with a neighbouring box half a cell away: interpolation with weights 1 and 0, so a field constant along the normal holding +-inf came back NaN (inf * 0)"),
 ("F20", ["C13"], "c0fc4b6", "mandoline default output with a trailing slash landed inside the input plotfile"),
 ("F7",  ["C07"], "31dbd00", "slice position within half a cell of an interior box face interpolated against a coarser level or uninitialised memory"),
 ("F8",  ["C07"], "29cfa29", "grid_level in the first / last half cell of the domain was min() with uninitialised memory"),
 ("F22", ["C16"], "5ebdddf", "plotfile-format slice shared one buffer between all levels and both sides: no interpolation, coarse boxes cut from finest data"),
 ("F24", ["C16"], "ae59c35", "plotfile-format slice chunk arithmetic: range() step 0 for a level the plane misses or fewer boxes than files; boxes silently dropped for 5 boxes / 3 files"),
 ("F23", ["C16"], "9decc78", "plotfile-format slice within half a cell of a level edge (patch boundary, first / last half cell of the domain) interpolated against uninitialised memory"),
 ("F25", ["C17"], "3faf934", "chk2plt with species_reactions=True raised for every checkpoint (I_R block not reshaped)"),
 ("F26", ["C17"], "268c918", "chk2plt box bounds used dx[0] in all directions: wrong bounds for anisotropic cells"),
 ("F18", ["C13", "C17"], "de9f79e", "chk2plt default output with a trailing slash / a name without 'chk' was the checkpoint itself (Header overwritten)"),
 ("F27", ["C18"], "2852a6c", "menu min/max table dropped the last field for odd field counts >= 3"),
 ("F28", ["C18"], "55d9fbc", "menu default listing crashed on plotfiles without Y(...) fields"),
 ("F29", ["C18"], "a9953d7", "menu stored unknown names as unanchored regexes: 'phi' hid 'phi2', names with '(' raised re.error"),
 ("F36", ["C04"], "1344ac0", "taste accepted bytes inserted in front of a box header (and offsets pointing a few bytes off the FAB keyword)"),
 ("F37", ["C04"], "338fb7a", "taste accepted a level header lacking a box and its FabOnDisk entry (counts adjusted) although the plotfile header announces more boxes"),
 ("F19", ["C13", "C18"], "584d6d0", "marinate with a trailing slash wrote plt/.pkl inside the input"),
]
OPEN = [
]
doc = dict(
    note="Known-findings file of /verif (committed; checks never write it). 'open' entries are genuine defects recorded rather than repaired: the check prints 'KNOWN-FINDING: property=<id> ...' when the pinned repro still fails and routes generated cases around exactly the stated predicate. 'fixed' entries suppress nothing: their repro cases live in corpus/<property>/ and must pass.",
    findings=[dict(id=i, properties=p, status="fixed", commit=c, what=w,
                   line=f"fixed: property={p[0]} {c} {w}") for i, p, c, w in FIXED] + OPEN)
json.dump(doc, open(os.path.join(VERIF, "known_findings.json"), "w"), indent=1)
print(len(FIXED), "fixed,", len(OPEN), "open")
