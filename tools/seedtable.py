#!/venv/bin/python
"""Print the markdown table of seeded changes (seeded/*/meta.json) for DESIGN.md section 9."""
import json, os, glob
VERIF = os.path.dirname(os.path.dirname(os.path.abspath(__file__)))
rows = []
for d in sorted(glob.glob(os.path.join(VERIF, "seeded", "*"))):
    m = json.load(open(os.path.join(d, "meta.json")))
    det = m.get("detection", {})
    caught = ", ".join(f"{c} ({'caught' if v['caught'] else 'MISSED'}, {v['tier']}, {v['secs']}s)" for c, v in det.items())
    note = m.get("strengthened", "")
    rows.append(f"| {os.path.basename(d)} | {m['property']} | {m['summary'].replace('|', '/')[:170]} | {m['needs'].replace('|', '/')[:150]} | {caught} | {note} |")
print("| seed | property | change | needs | detection by | check strengthened because of it |")
print("|---|---|---|---|---|---|")
print("\n".join(rows))
