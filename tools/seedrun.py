#!/venv/bin/python
"""Vet and evaluate a seeded change produced by an independent sub-agent.

usage: tools/seedrun.py <src dir with patch.diff demo.py meta.json> <name> [--checks C01,C15] [--tier quick] [--keep]
Steps (all on scratch copies under /dev/shm, removed afterwards):
  1. patch applies to /repo's working tree (copy)           2. repo suite on the patched copy: 40 passed
  3. demo exits 0 on /repo and non-zero on the patched copy  4. each named check with AKV_REPO=patched copy
With --keep and (1-3) confirmed, the change is stored as /verif/seeded/<name>/ with the results in meta.json.
"""
import json, os, shutil, subprocess, sys, time
VERIF = os.path.dirname(os.path.dirname(os.path.abspath(__file__)))

def sh(cmd, **kw):
    return subprocess.run(cmd, shell=isinstance(cmd, str), capture_output=True, text=True, **kw)

def sh_demo(cmd, timeout=900, **kw):
    """run a demonstration in its own process group; a hang (exit 124) kills the whole group"""
    import signal
    p = subprocess.Popen(cmd, stdout=subprocess.PIPE, stderr=subprocess.PIPE, text=True, start_new_session=True, **kw)
    try:
        out, err = p.communicate(timeout=timeout)
    except subprocess.TimeoutExpired:
        os.killpg(p.pid, signal.SIGKILL)
        out, err = p.communicate()
        return subprocess.CompletedProcess(cmd, 124, out, err + "\n[demo timed out after %ds: hang]" % timeout)
    return subprocess.CompletedProcess(cmd, p.returncode, out, err)

def main():
    a = sys.argv[1:]
    src, name = a[0], a[1]
    checks = None; tier = "quick"; keep = False
    i = 2
    while i < len(a):
        if a[i] == "--checks": checks = a[i + 1].split(","); i += 2
        elif a[i] == "--tier": tier = a[i + 1]; i += 2
        elif a[i] == "--keep": keep = True; i += 1
        else: i += 1
    meta = json.load(open(os.path.join(src, "meta.json")))
    checks = checks or [meta["property"]]
    d = f"/dev/shm/seedchk_{name}_{os.getpid()}"
    shutil.rmtree(d, ignore_errors=True); os.makedirs(d)
    for sub in ("amr_kitchen", "test"):
        shutil.copytree(f"/repo/{sub}", f"{d}/{sub}", ignore=shutil.ignore_patterns("__pycache__", "plt_tmp"))
    shutil.copy("/repo/conftest.py", d); os.symlink("/repo/test_assets", f"{d}/test_assets")
    res = dict(name=name, property=meta["property"])
    p = sh(["patch", "-p1", "-s", "-i", os.path.abspath(os.path.join(src, "patch.diff"))], cwd=d)
    res["applies"] = p.returncode == 0
    if not res["applies"]:
        print("PATCH DOES NOT APPLY", p.stdout, p.stderr); shutil.rmtree(d); return 1
    env = dict(os.environ, PYTHONPATH=d)
    t = sh(["/venv/bin/python", "-m", "pytest", "-q", "-p", "no:cacheprovider", "--timeout=900",
            "--deselect", "test/test_chk2plt.py::Testchk2plt::test_chk2plt"], cwd=d, env=env)
    tail = [l for l in t.stdout.strip().split("\n") if "passed" in l or "failed" in l][-1:]
    res["suite"] = tail[0].strip() if tail else t.stdout[-200:]
    res["suite_ok"] = t.returncode == 0 and "40 passed" in res["suite"]
    demo = os.path.abspath(os.path.join(src, "demo.py"))
    scratch = f"{d}/_demo"; os.makedirs(scratch)
    r0 = sh_demo(["/venv/bin/python", demo, "/repo"], cwd=scratch, env=dict(os.environ, PYTHONPATH="/repo"))
    r1 = sh_demo(["/venv/bin/python", demo, d], cwd=scratch, env=env)
    res["demo_unpatched_exit"], res["demo_patched_exit"] = r0.returncode, r1.returncode
    res["demo_patched_tail"] = (r1.stdout + r1.stderr)[-300:]
    res["confirmed"] = bool(res["suite_ok"] and r0.returncode == 0 and r1.returncode != 0)
    res["checks"] = {}
    for c in checks:
        t0 = time.time()
        p = sh([f"{VERIF}/check", c, tier], cwd=VERIF, env=dict(os.environ, AKV_REPO=d))
        viol = [l for l in p.stdout.split("\n") if l.startswith("VIOLATION")]
        det = [l.strip() for l in p.stdout.split("\n") if l.startswith("  [")][:1]
        res["checks"][c] = dict(exit=p.returncode, caught=p.returncode == 1 and bool(viol), secs=round(time.time() - t0, 1),
                                detail=(det or [""])[0][:300], stderr=p.stderr[-300:] if p.returncode == 2 else "")
        for v in viol:
            try: os.remove(v.split("replay=")[1])
            except OSError: pass
    shutil.rmtree(d)
    print(json.dumps(res, indent=1))
    if keep and res["confirmed"]:
        out = os.path.join(VERIF, "seeded", name); os.makedirs(out, exist_ok=True)
        for f in ("patch.diff", "demo.py"):
            shutil.copy(os.path.join(src, f), out)
        meta.update(dict(vetting=dict(applies=True, suite=res["suite"], demo_unpatched_exit=r0.returncode,
                                      demo_patched_exit=r1.returncode,
                                      ran="tools/seedrun.py: patched scratch copy of /repo's working tree; repo suite; demo on both trees; ./check <ID> %s with AKV_REPO=<patched copy>" % tier),
                         detection={c: dict(caught=v["caught"], tier=tier, secs=v["secs"], detail=v["detail"]) for c, v in res["checks"].items()}))
        json.dump(meta, open(os.path.join(out, "meta.json"), "w"), indent=1)
    return 0

if __name__ == "__main__":
    sys.exit(main())
