#!/bin/bash
# usage: tools/ev3.sh <outroot> <suffix-a> <suffix-b> <ID> [checks]   evaluate and store a sub-agent's two seeds
root=$1; sa=$2; sb=$3; id=$4; checks=$5
cd "$(dirname "$0")/.."
for x in a b; do n=$( [ $x = a ] && echo $sa || echo $sb )
  tools/seedrun.py $root/$id/$x ${id}_$n --keep ${checks:+--checks $checks} | python3 -c "
import json,sys; r=json.load(sys.stdin); print(r['name'], 'confirmed', r['confirmed'], r['suite'][:25], r['demo_unpatched_exit'], r['demo_patched_exit'], {k:(v['caught'],v['secs'],v['detail'][:140]) for k,v in r['checks'].items()})"
done
