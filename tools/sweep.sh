#!/bin/bash
# usage: tools/sweep.sh "<seeds>" [tier] [ids...]   runs every check at the given VERIF_SEED values, prints one line per run
seeds=$1; tier=${2:-quick}; shift; shift
ids=${@:-C01 C02 C03 C04 C05 C06 C07 C08 C09 C10 C11 C12 C13 C14 C15 C16 C17 C18 C19 C20}
cd "$(dirname "$0")/.."
for s in $seeds; do for id in $ids; do
  out=$(VERIF_SEED=$s timeout 3000 ./check $id $tier 2>&1); rc=$?
  echo "seed=$s $id rc=$rc $(echo "$out" | grep -E "^C[0-9]+ $tier" | cut -c1-110)"
  if [ $rc -ne 0 ]; then echo "$out" | grep -E "VIOLATION|HARNESS|^  \[" | head -5 | cut -c1-400; fi
done; done
