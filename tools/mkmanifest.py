#!/venv/bin/python
"""Regenerate MANIFEST.json from the property modules present under akv/props (run from /verif)."""
import importlib, json, os, sys
VERIF = os.path.dirname(os.path.dirname(os.path.abspath(__file__)))
sys.path.insert(0, VERIF)
props = [json.loads(l) for l in open(os.path.join(VERIF, "properties.jsonl"))]
checks, na = [], []
for p in props:
    pid = p["id"]
    if not os.path.exists(os.path.join(VERIF, "akv", "props", pid.lower() + ".py")):
        na.append(dict(property_id=pid, reason="check under construction in this round (designed in DESIGN.md section 3; not yet registered)"))
        continue
    src = open(os.path.join(VERIF, "akv", "props", pid.lower() + ".py")).read()
    ns = {}
    # metadata constants are plain literals at module top: evaluate them without importing hypothesis etc.
    import ast
    tree = ast.parse(src)
    for node in tree.body:
        if isinstance(node, ast.Assign) and len(node.targets) == 1 and isinstance(node.targets[0], ast.Name):
            try: ns[node.targets[0].id] = ast.literal_eval(node.value)
            except Exception: pass
    checks.append(dict(
        property_id=pid,
        quick_cmd=f"./check {pid} quick",
        thorough_cmd=f"./check {pid} thorough",
        evidence_file=f"/verif/evidence/{pid}.json",
        replay_cmd_template=f"./check {pid} --replay {{path}}",
        engine="akv",
        level_claimed=dict(category=ns["LEVEL"],
                           text=("Bounded generated-input search (property-based testing with Hypothesis; %s cases per quick run, %s per thorough run, "
                                 "sharded over 16 processes, a pure function of VERIF_SEED) decided against an explicit oracle; it finds violations "
                                 "and shrinks them to a JSON replay file, it never proves absence. This is the right level because the property "
                                 "quantifies over inputs / configurations / schedules / fault sites that a generator can construct and for which "
                                 "an executable oracle exists. What is generated and what the oracle is: " % (ns["BUDGET"]["quick"], ns["BUDGET"]["thorough"]))
                                + ns["RULE"],
                           design_ref=f"DESIGN.md section 3 {pid} (revisions in section 6b)"),
        level_note=ns.get("LEVEL_NOTE", "; ".join(ns.get("ASSUMPTIONS", []))),
        technique=ns.get("TECHNIQUE", "property-based testing (Hypothesis) against an independent reference reader/model"),
    ))
man = dict(
    version=1,
    setup_cmd="/venv/bin/python -c 'import hypothesis' 2>/dev/null || /venv/bin/pip install --no-index --find-links /opt/veriftools/wheels hypothesis",
    hooks=dict(guard="AMR_KITCHEN_VERIF", enable="no repository hooks: pools, open(), numpy.empty and audit events are substituted from the harness (akv/harness.py, akv/pools.py); checks import amr_kitchen from /repo's working tree in a fresh interpreter",
               baseline_off_cmd="cd /repo && /venv/bin/python -m pytest -ra -q -p no:cacheprovider --timeout=900 --continue-on-collection-errors",
               source_commits=[], add_only=True),
    engines=[dict(name="akv", path="/verif/akv", serves_properties=[c["property_id"] for c in checks],
                  kind_free_text="Hypothesis-driven generated plotfiles/checkpoints/schedules/faults, independent reference reader and models, JSON replay files")],
    checks=checks,
    notes="Each check: ./check <ID> <quick|thorough>; sharded over 16 processes; a pure function of VERIF_SEED. Known findings in /verif/known_findings.json.",
    not_applicable=na,
)
json.dump(man, open(os.path.join(VERIF, "MANIFEST.json"), "w"), indent=1)
print("checks:", [c["property_id"] for c in checks], "not yet:", [n["property_id"] for n in na])
