#!/bin/bash
# usage: tools/covrun.sh [ids...]   measures which lines of /repo/amr_kitchen the quick tier of each check executes
# (two shards per property, in-process; real-pool children and CLI subprocesses are measured too through
# COVERAGE_PROCESS_START).  Output: /dev/shm/cov/report.txt and per-property reports.  Generator-quality tool only.
ids=${@:-C01 C02 C03 C04 C05 C06 C07 C08 C09 C10 C11 C12 C13 C14 C15 C16 C17 C18 C19 C20}
cd "$(dirname "$0")/.."; V=$PWD; O=/dev/shm/cov; rm -rf $O; mkdir -p $O
cat > $O/rc <<EOC
[run]
source = /repo/amr_kitchen
parallel = True
concurrency = multiprocessing
data_file = $O/data/.coverage
EOC
mkdir -p $O/data $O/site
echo "import coverage; coverage.process_startup()" > $O/site/sitecustomize.py
export COVERAGE_PROCESS_START=$O/rc PYTHONHASHSEED=0 PYTHONPATH=$O/site:$V VERIF_SEED=${VERIF_SEED:-1}
for id in $ids; do for sh in 0 5; do
  mkdir -p $O/out_$id
  ( COVERAGE_FILE=$O/data/.coverage.$id /venv/bin/python -m coverage run --rcfile=$O/rc --data-file=$O/data/.coverage.$id -m akv.check $id quick --shard $sh/16 --outdir $O/out_$id > $O/out_$id/log_$sh 2>&1 ) &
done; done; wait
cd $O/data
for id in $ids; do
  /venv/bin/python -m coverage combine --keep --data-file=$O/cov_$id $O/data/.coverage.$id.* >/dev/null 2>&1
  /venv/bin/python -m coverage report --data-file=$O/cov_$id -m --skip-empty > $O/report_$id.txt 2>&1
done
/venv/bin/python -m coverage combine --keep --data-file=$O/cov_all $O/data/.coverage.* >/dev/null 2>&1
/venv/bin/python -m coverage report --data-file=$O/cov_all -m --skip-empty > $O/report.txt 2>&1
cat $O/report.txt
