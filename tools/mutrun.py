#!/venv/bin/python
"""Sensitivity yardstick: apply one-hunk mutants (tools/mutants.py) to a scratch copy of /repo's
working tree and run the property's check against it with AKV_REPO.

usage: tools/mutrun.py [--tier quick] [--check Cxx] <mutant id | property id | all> ...
A mutant is 'caught' when the check exits 1.  Scratch copies live under /dev/shm and are removed.
"""
import os, shutil, subprocess, sys, time, json
sys.path.insert(0, os.path.dirname(os.path.abspath(__file__)))
from mutants import M
VERIF = os.path.dirname(os.path.dirname(os.path.abspath(__file__)))

def run(m, tier, check=None, examples=None):
    mid, prop, f, old, new, what = m
    prop = check or prop
    d = f"/dev/shm/akmut_{mid}_{os.getpid()}"
    shutil.rmtree(d, ignore_errors=True); os.makedirs(d)
    shutil.copytree("/repo/amr_kitchen", f"{d}/amr_kitchen", ignore=shutil.ignore_patterns("__pycache__"))
    os.symlink("/repo/test_assets", f"{d}/test_assets")
    s = open(f"{d}/{f}").read(); n = s.count(old)
    if n != 1:
        shutil.rmtree(d); return dict(id=mid, prop=prop, status=f"NOAPPLY({n})", what=what)
    open(f"{d}/{f}", "w").write(s.replace(old, new))
    env = dict(os.environ, AKV_REPO=d)
    if examples: env["AKV_EXAMPLES"] = str(examples)
    t = time.time()
    p = subprocess.run([f"{VERIF}/check", prop, tier], cwd=VERIF, env=env, capture_output=True, text=True)
    shutil.rmtree(d)
    viol = [l for l in p.stdout.split("\n") if l.startswith("VIOLATION")]
    detail = [l for l in p.stdout.split("\n") if l.startswith("  [")][:1]
    return dict(id=mid, prop=prop, status={0: "MISSED", 1: "caught", 2: "HARNESS-ERROR"}.get(p.returncode, str(p.returncode)),
                secs=round(time.time() - t, 1), what=what, detail=(detail or [""])[0][:200],
                err=p.stderr[-400:] if p.returncode == 2 else "", replay=viol[0].split("replay=")[1] if viol else None)

if __name__ == "__main__":
    args = sys.argv[1:]; tier = "quick"; check = None; keep = False
    while args and args[0].startswith("--"):
        if args[0] == "--tier": tier = args[1]; args = args[2:]
        elif args[0] == "--check": check = args[1]; args = args[2:]
        elif args[0] == "--keep-replays": keep = True; args = args[1:]
    sel = [m for m in M if "all" in args or m[0] in args or m[1] in args]
    for m in sel:
        r = run(m, tier, check)
        print(f"{r['id']:6s} {r['prop']} {r['status']:14s} {r.get('secs','')}s | {r['what'][:70]} {r.get('detail','')}")
        if r.get("err"): print(r["err"])
        if r.get("replay") and not keep:
            try: os.remove(r["replay"])
            except OSError: pass
        sys.stdout.flush()
