"""Shared harness pieces: locating the code under test, scratch directories, quiet calls, hashing."""
import contextlib
import hashlib
import io
import json
import os
import shutil
import sys
import tempfile

REPO = os.path.abspath(os.environ.get("AKV_REPO", "/repo"))
VERIF = os.path.dirname(os.path.dirname(os.path.abspath(__file__)))

_SETUP = {"done": False}


class HarnessError(Exception):
    """Something is wrong with the harness itself (never a property violation)."""


def setup_repo(patch_pools=True):
    """Import amr_kitchen from the working tree under test and substitute the pools."""
    if _SETUP["done"]:
        return
    os.environ.setdefault("AMR_KITCHEN_VERIF", "1")
    os.environ.setdefault("MPLBACKEND", "Agg")
    if REPO not in sys.path[:1]:
        sys.path.insert(0, REPO)
    import multiprocessing
    from . import pools
    _SETUP["real_pool"] = multiprocessing.Pool
    if patch_pools:
        multiprocessing.Pool = pools.SchedPool
    import amr_kitchen
    where = os.path.dirname(os.path.dirname(os.path.abspath(amr_kitchen.__file__)))
    if os.path.realpath(where) != os.path.realpath(REPO):
        raise HarnessError(f"amr_kitchen imported from {where}, expected {REPO}")
    import importlib
    chefmod = importlib.import_module("amr_kitchen.chef.chef")
    importlib.import_module("amr_kitchen.chk2plt.chk2plt")
    c2p = sys.modules["amr_kitchen.chk2plt.chk2plt"]      # the package re-exports a class of the same name
    _SETUP["real_pathos"] = chefmod.Pool
    _SETUP["real_c2p"] = c2p.Pool
    sys.dont_write_bytecode = True
    if patch_pools:
        chefmod.Pool = pools.DillSchedPool
        c2p.Pool = pools.SchedPool
    _SETUP["done"] = True


def scratch_root():
    base = "/dev/shm" if os.path.isdir("/dev/shm") and os.access("/dev/shm", os.W_OK) else tempfile.gettempdir()
    return base


class Scratch:
    """A private scratch directory; ``fresh()`` empties it and makes it the cwd."""

    def __init__(self, tag):
        self.root = tempfile.mkdtemp(prefix=f"akv-{tag}-", dir=scratch_root())
        self.n = 0

    def fresh(self):
        os.chdir(self.root)
        for n in os.listdir(self.root):
            p = os.path.join(self.root, n)
            if os.path.isdir(p) and not os.path.islink(p):
                shutil.rmtree(p, ignore_errors=True)
            else:
                try:
                    os.remove(p)
                except OSError:
                    pass
        self.n += 1
        return self.root

    def close(self):
        os.chdir("/")
        shutil.rmtree(self.root, ignore_errors=True)


@contextlib.contextmanager
def quiet():
    buf = io.StringIO()
    with contextlib.redirect_stdout(buf), contextlib.redirect_stderr(buf):
        yield buf


def qcall(f, *a, **k):
    with quiet():
        return f(*a, **k)



def verbosity(case):
    """0 (what scripts pass) for two cases in three, None - the tools' default, which prints progress - for the third:
    a function of the case, so that results are compared across verbosity levels without another draw."""
    import zlib
    return None if zlib.crc32(json.dumps(case, sort_keys=True, default=str).encode()) % 3 == 0 else 0

def case_hash(case):
    return hashlib.sha1(json.dumps(case, sort_keys=True, default=str).encode()).hexdigest()[:16]


def tree_hash(d):
    """sha256 over relative names and contents of every file under d (or of the file d)."""
    h = hashlib.sha256()
    if os.path.isfile(d):
        with open(d, "rb") as f:
            h.update(f.read())
        return h.hexdigest()
    for r, ds, fs in sorted(os.walk(d)):
        ds.sort()
        for f in sorted(fs):
            h.update(os.path.relpath(os.path.join(r, f), d).encode())
            h.update(b"\0")
            with open(os.path.join(r, f), "rb") as fh:
                h.update(fh.read())
            h.update(b"\1")
    return h.hexdigest()


def tree_files(d):
    out = {}
    for r, ds, fs in os.walk(d):
        for f in fs:
            p = os.path.join(r, f)
            with open(p, "rb") as fh:
                out[os.path.relpath(p, d)] = hashlib.sha256(fh.read()).hexdigest()
    return out


def snapshot(d):
    """{relpath: (mode, size, mtime_ns, sha256)} for every entry under d, plus d itself."""
    out = {}
    for r, ds, fs in os.walk(d):
        for n in ds + fs:
            p = os.path.join(r, n)
            s = os.lstat(p)
            dig = None
            if os.path.isfile(p) and not os.path.islink(p):
                with open(p, "rb") as fh:
                    dig = hashlib.sha256(fh.read()).hexdigest()
            out[os.path.relpath(p, d)] = (s.st_mode, s.st_size if dig is not None else None, s.st_mtime_ns, dig)
    s = os.lstat(d)
    out["."] = (s.st_mode, None, s.st_mtime_ns, None)
    return out


def snapshot_diff(a, b):
    msgs = []
    for k in sorted(set(a) | set(b)):
        if k not in a:
            msgs.append(f"created {k}")
        elif k not in b:
            msgs.append(f"deleted {k}")
        elif a[k] != b[k]:
            msgs.append(f"modified {k}")
    return msgs


def draw_examples(strategy, n, seedval):
    """n examples of a strategy, a pure function of seedval (no shrinking, no database)."""
    from hypothesis import HealthCheck, Phase, given, seed, settings
    out = []

    @seed(seedval)
    @settings(max_examples=n, database=None, deadline=None, suppress_health_check=list(HealthCheck),
              phases=[Phase.generate])
    @given(strategy)
    def collect(x):
        out.append(x)
    collect()
    return out[:n]


POISONS = (1.5e300, -7.25e-300)


@contextlib.contextmanager
def poisoned_empty(value):
    """numpy.empty / numpy.empty_like return buffers pre-filled with `value`: uninitialised memory made visible."""
    import numpy
    real = numpy.empty

    def empty(shape, dtype=float, *a, **k):
        arr = real(shape, dtype, *a, **k)
        if arr.dtype.kind == "f":
            arr.fill(value)
        elif arr.dtype.kind in "iu":
            arr.fill(-(2 ** 30) + 12345)
        return arr
    real_like = numpy.empty_like

    def empty_like(proto, *a, **k):
        arr = real_like(proto, *a, **k)
        if arr.dtype.kind == "f":
            arr.fill(value)
        elif arr.dtype.kind in "iu":
            arr.fill(-(2 ** 30) + 12345)
        return arr
    numpy.empty = empty
    numpy.empty_like = empty_like
    try:
        yield
    finally:
        numpy.empty = real
        numpy.empty_like = real_like


# --------------------------------------------------------------------------- unusual but legal spellings of the input path

VIAS = [None, None, None, None, "symlink_dotdot", "glob_dir", "space_dir", "unicode_dir"]


def place_plotfile(write_fn, via, decoy_fn=None):
    """Writes a plotfile (write_fn(path)) into the current scratch directory and returns the path to hand to the tool.

    symlink_dotdot: the plotfile is a/src, named lnk/../src with lnk -> a/b (a lexical collapse of '..' would give ./src,
    where decoy_fn, when given, writes other data on the same mesh); glob_dir / space_dir / unicode_dir: parent directory
    names with glob metacharacters, blanks and brackets, non-ASCII letters."""
    if via is None:
        write_fn("src")
        return "src"
    if via == "symlink_dotdot":
        os.makedirs("a/b")
        os.symlink(os.path.join("a", "b"), "lnk")
        write_fn(os.path.join("a", "src"))
        if decoy_fn is not None:
            decoy_fn("src")
        return os.path.join("lnk", "..", "src")
    parent = {"glob_dir": "case[Re=100]*?", "space_dir": "my runs (old)", "unicode_dir": "r\u00e9sultats_\u03b1"}[via]
    os.makedirs(parent)
    path = os.path.join(parent, "plt00010")
    write_fn(path)
    return path
