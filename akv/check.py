"""Runner: ``python -m akv.check <ID> <quick|thorough> [--replay FILE]``  (cwd = /verif).

Exit codes: 0 held (possibly with KNOWN-FINDING lines), 1 violation(s) (``VIOLATION property=<id>
replay=<path>``), 2 harness error / inconclusive.  See DESIGN.md 2.1.
"""
import argparse
import collections
import importlib
import json
import os
import shutil
import subprocess
import sys
import tempfile
import time
import traceback

VERIF = os.path.dirname(os.path.dirname(os.path.abspath(__file__)))
# runs against a scratch copy of the repository (sensitivity / seeded-change evaluation) must not overwrite the
# evidence and replay files of /repo itself
ALT_TREE = os.path.abspath(os.environ.get("AKV_REPO", "/repo")) != "/repo"
OUTROOT = os.path.join(tempfile.gettempdir(), "akv-alt-tree-output") if ALT_TREE else VERIF
NSHARDS_DEFAULT = 16
SHRINK_BUDGET = {"quick": 45.0, "thorough": 180.0}
SHARD_TIMEOUT = {"quick": 600, "thorough": 3 * 3600}


class ViolationFound(Exception):
    pass


class Ctx:
    """Per-shard context handed to check_case."""

    def __init__(self, prop_id, tier, scratch, findings):
        self.prop_id = prop_id
        self.tier = tier
        self.scratch = scratch
        self.findings = findings            # {fid: entry} open findings of this property
        self.force = False                  # True while re-running a finding's pinned repro: no exclusions
        self.counters = collections.Counter()
        self.excluded = collections.Counter()
        self._nontrivial = False
        self._labels = []

    # -- called by check_case
    def label(self, *labs):
        self._labels.extend(labs)

    def nontrivial(self, flag=True):
        if flag:
            self._nontrivial = True

    def is_open(self, fid):
        """True if region `fid` must be routed around (listed open finding, and not a forced repro run)."""
        return (not self.force) and fid in self.findings

    def exclude(self, fid, n=1):
        self.excluded[fid] += n

    def fresh(self):
        return self.scratch.fresh()

    # -- runner side
    def begin(self):
        self._nontrivial = False
        self._labels = []

    def end(self):
        for l in self._labels:
            self.counters[l] += 1
        return self._nontrivial


def load_findings(prop_id):
    p = os.path.join(VERIF, "known_findings.json")
    if not os.path.exists(p):
        return {}, []
    with open(p) as f:
        doc = json.load(f)
    ents = [e for e in doc.get("findings", []) if prop_id in e.get("properties", [e.get("property")])]
    return {e["id"]: e for e in ents if e.get("status") == "open"}, ents


def corpus_cases(prop_id):
    d = os.path.join(VERIF, "corpus", prop_id)
    out = []
    if os.path.isdir(d):
        for n in sorted(os.listdir(d)):
            if n.endswith(".json"):
                with open(os.path.join(d, n)) as f:
                    doc = json.load(f)
                out.append((n, doc.get("case", doc)))
    return out


def run_shard(args):
    from . import harness
    harness.setup_repo()
    from hypothesis import HealthCheck, Phase, given, seed, settings
    prop = importlib.import_module(f"akv.props.{args.id.lower()}")
    shard, nshards = [int(x) for x in args.shard.split("/")]
    vseed = int(os.environ.get("VERIF_SEED", "1") or "1")
    scratch = harness.Scratch(f"{args.id}-{shard}")
    open_findings, all_findings = load_findings(args.id)
    ctx = Ctx(args.id, args.tier, scratch, open_findings)
    res = dict(shard=shard, evaluations=0, hashes=[], samples=[], violations=[], known=[], notes=[],
               replayed=0, error=None)
    seen = set()
    failing = {}            # case hash -> messages
    state = dict(first_fail=None)

    def run_one(case, count=True):
        ctx.begin()
        msgs = prop.check_case(case, ctx)
        nt = ctx.end()
        if count:
            res["evaluations"] += 1
            if nt:
                h = harness.case_hash(case)
                if h not in seen:
                    seen.add(h)
                    if len(res["samples"]) < 3:
                        res["samples"].append(prop.compact(case) if hasattr(prop, "compact") else case)
        return msgs

    try:
        if shard == 0:
            # pinned reproductions of listed findings, then the regression corpus
            for fid, ent in sorted(open_findings.items()):
                for rc in ent.get("repros", [ent["repro"]] if "repro" in ent else []):
                    if rc.get("property", args.id) != args.id:
                        continue
                    ctx.force = True
                    try:
                        msgs = run_one(rc["case"], count=False)
                    finally:
                        ctx.force = False
                    if msgs:
                        res["known"].append(f"KNOWN-FINDING: property={args.id} {fid} {ent['what']}")
                    else:
                        res["notes"].append(f"KNOWN-FINDING-NOT-REPRODUCED: property={args.id} {fid} (pinned repro holds now)")
            for name, case in corpus_cases(args.id):
                msgs = run_one(case, count=True)
                res["replayed"] += 1
                if msgs:
                    res["violations"].append(dict(case=case, messages=msgs[:5], origin=f"corpus/{name}"))
        n_examples = int(os.environ.get("AKV_EXAMPLES", 0)) or max(1, prop.BUDGET[args.tier] // nshards)
        if hasattr(prop, "extra_cases"):
            for case in prop.extra_cases(args.tier, shard, nshards, vseed):
                msgs = run_one(case)
                if msgs:
                    res["violations"].append(dict(case=case, messages=msgs[:5], origin="enumeration"))
                    break
        if hasattr(prop, "run_custom"):
            prop.run_custom(args.tier, shard, nshards, vseed, ctx, res, run_one, n_examples)
        elif not res["violations"]:
            budget = SHRINK_BUDGET[args.tier]

            @seed(vseed * 7919 + shard * 104729 + 13)
            @settings(max_examples=n_examples, database=None, deadline=None, report_multiple_bugs=False,
                      derandomize=False, suppress_health_check=list(HealthCheck),
                      phases=[Phase.generate, Phase.shrink])
            @given(prop.cases(args.tier))
            def t(case):
                h = harness.case_hash(case)
                if state["first_fail"] is not None and time.time() - state["first_fail"] > budget:
                    if h in failing:
                        raise ViolationFound(failing[h][0])
                    return
                msgs = run_one(case)
                if msgs:
                    failing[h] = msgs
                    state["last"] = (case, msgs)
                    if state["first_fail"] is None:
                        state["first_fail"] = time.time()
                    raise ViolationFound(msgs[0])

            try:
                t()
            except ViolationFound:
                case, msgs = state["last"]
                res["violations"].append(dict(case=case, messages=msgs[:5], origin="generated"))
            except BaseException as e:
                # Hypothesis reports a failure that does not reproduce on replay as Flaky: the code under test answered
                # differently for the same case depending on what ran before in this process.  With a recorded violation
                # that is a finding about the code (history dependence), not a harness error.
                from hypothesis.errors import Flaky
                if isinstance(e, Flaky) and state.get("last"):
                    case, msgs = state["last"]
                    res["violations"].append(dict(case=case, origin="generated (not reproducible in isolation: the outcome "
                                                  "depends on what ran earlier in the same process)",
                                                  messages=msgs[:5]))
                else:
                    raise
    except BaseException:
        res["error"] = traceback.format_exc()
    finally:
        scratch.close()
    res["hashes"] = sorted(seen)
    res["counters"] = dict(ctx.counters)
    res["excluded"] = dict(ctx.excluded)
    with open(os.path.join(args.outdir, f"shard_{shard}.json"), "w") as f:
        json.dump(res, f, default=str)
    return 0


def replay(args):
    from . import harness
    harness.setup_repo()
    prop = importlib.import_module(f"akv.props.{args.id.lower()}")
    path = os.path.abspath(args.replay)
    with open(path) as f:
        doc = json.load(f)
    case = doc.get("case", doc)
    scratch = harness.Scratch(f"{args.id}-replay")
    open_findings, _ = load_findings(args.id)
    ctx = Ctx(args.id, "quick", scratch, open_findings)
    ctx.force = bool(doc.get("force"))
    try:
        ctx.begin()
        msgs = prop.check_case(case, ctx)
    finally:
        scratch.close()
    if msgs:
        for m in msgs[:10]:
            print("  " + m)
        print(f"VIOLATION property={args.id} replay={path}")
        return 1
    print(f"replay holds: property={args.id} {path}")
    return 0


def main():
    ap = argparse.ArgumentParser()
    ap.add_argument("id")
    ap.add_argument("tier", nargs="?", default=os.environ.get("VERIF_TIER", "quick"), choices=["quick", "thorough"])
    ap.add_argument("--replay")
    ap.add_argument("--shard")
    ap.add_argument("--outdir")
    args = ap.parse_args()
    args.id = args.id.upper()
    if args.shard:
        return run_shard(args)
    if args.replay:
        try:
            return replay(args)
        except Exception:
            traceback.print_exc()
            return 2
    t0 = time.time()
    prop = importlib.import_module(f"akv.props.{args.id.lower()}")
    nshards = int(os.environ.get("AKV_SHARDS", 0)) or min(NSHARDS_DEFAULT, getattr(prop, "MAX_SHARDS", NSHARDS_DEFAULT))
    base = "/dev/shm" if os.path.isdir("/dev/shm") and os.access("/dev/shm", os.W_OK) else tempfile.gettempdir()
    outdir = tempfile.mkdtemp(prefix=f"akv-run-{args.id}-", dir=base)
    env = dict(os.environ)
    env.setdefault("PYTHONHASHSEED", "0")
    env.setdefault("VERIF_SEED", "1")
    env["PYTHONPATH"] = VERIF + os.pathsep + env.get("PYTHONPATH", "")
    procs = []
    for i in range(nshards):
        log = open(os.path.join(outdir, f"shard_{i}.log"), "w")
        procs.append((i, log, subprocess.Popen(
            [sys.executable, "-m", "akv.check", args.id, args.tier, "--shard", f"{i}/{nshards}", "--outdir", outdir],
            cwd=VERIF, env=env, stdout=log, stderr=subprocess.STDOUT)))
    deadline = t0 + SHARD_TIMEOUT[args.tier]
    errors = []
    for i, log, p in procs:
        try:
            p.wait(timeout=max(1, deadline - time.time()))
        except subprocess.TimeoutExpired:
            p.kill()
            errors.append(f"shard {i}: timed out (inconclusive)")
        log.close()
    results = []
    for i in range(nshards):
        rp = os.path.join(outdir, f"shard_{i}.json")
        if not os.path.exists(rp):
            with open(os.path.join(outdir, f"shard_{i}.log")) as f:
                tail = f.read()[-3000:]
            errors.append(f"shard {i}: no result\n{tail}")
            continue
        with open(rp) as f:
            r = json.load(f)
        if r.get("error"):
            errors.append(f"shard {i}: {r['error']}")
        results.append(r)
    shutil.rmtree(outdir, ignore_errors=True)

    vseed = int(env["VERIF_SEED"] or "1")
    hashes = set()
    counters = collections.Counter()
    excluded = collections.Counter()
    samples, violations, known, notes = [], [], [], []
    evaluations = replayed = 0
    for r in results:
        evaluations += r["evaluations"]
        replayed += r.get("replayed", 0)
        hashes.update(r["hashes"])
        counters.update(r.get("counters", {}))
        excluded.update(r.get("excluded", {}))
        samples += r["samples"][:1] if samples else r["samples"]
        violations += r["violations"]
        known += r["known"]
        notes += r["notes"]
    for k in known:
        print(k)
    for n in notes:
        print(n)
    # replay files
    vlines = []
    seen_paths = set()
    if violations:
        from .harness import case_hash
        rdir = os.path.join(OUTROOT, "replays", args.id)
        os.makedirs(rdir, exist_ok=True)
        for v in violations:
            path = os.path.join(rdir, case_hash(v["case"])[:12] + ".json")
            if path in seen_paths:
                continue
            seen_paths.add(path)
            with open(path, "w") as f:
                json.dump(dict(property=args.id, case=v["case"], messages=v["messages"], origin=v["origin"],
                               seed=vseed, tier=args.tier), f, indent=1, default=str)
            print(f"  [{v['origin']}] " + " | ".join(v["messages"][:3])[:600])
            vlines.append(f"VIOLATION property={args.id} replay={path}")
    wall = time.time() - t0
    ev = dict(property_id=args.id, tier=args.tier, seed=vseed, level=prop.LEVEL,
              coverage=dict(evaluations=evaluations, distinct_nontrivial=len(hashes), rule=prop.RULE,
                            samples=samples[:5], classes=dict(sorted(counters.items())),
                            excluded_known=dict(excluded), replayed=replayed, shards=nshards,
                            exhaustive=False, known_findings=known),
              assumptions=list(getattr(prop, "ASSUMPTIONS", [])),
              wall_s=round(wall, 2), violations=len(vlines))
    os.makedirs(os.path.join(OUTROOT, "evidence"), exist_ok=True)
    with open(os.path.join(OUTROOT, "evidence", f"{args.id}.json"), "w") as f:
        json.dump(ev, f, indent=1, default=str)
    print(f"{args.id} {args.tier}: evaluations={evaluations} distinct_nontrivial={len(hashes)} "
          f"excluded={dict(excluded)} violations={len(vlines)} wall={wall:.1f}s")
    top = ", ".join(f"{k}={v}" for k, v in sorted(counters.items(), key=lambda kv: -kv[1])[:14])
    print(f"  classes: {top}")
    if errors:
        for e in errors:
            print("HARNESS-ERROR " + e, file=sys.stderr)
        for v in vlines:
            print(v)
        return 1 if vlines else 2
    for v in vlines:
        print(v)
    return 1 if vlines else 0


if __name__ == "__main__":
    sys.exit(main())
