"""akv - generated-input checks for the amrex-kitchen properties (see /verif/DESIGN.md)."""
