"""Schedule-owning in-process pool substituted for multiprocessing.Pool / pathos ProcessingPool.

The schedule is plain data (part of the JSON case): for the i-th pool call of a run,
``sched['exec'][i]`` is a selection code giving the order in which the tasks *run* and
``sched['comp'][i]`` the order in which an unordered iterator *yields*; missing entries mean
identity.  ``sched['lazy']`` runs tasks only when the parent asks for a result.  Arguments and
results cross a pickle round trip like a process boundary.  See DESIGN.md 2.6.
"""
import pickle

import dill


def perm_from_code(n, code):
    remaining = list(range(n))
    order = []
    for j in range(n):
        k = (code[j] if j < len(code) else 0) % len(remaining)
        order.append(remaining.pop(k))
    return order


class Schedule:
    def __init__(self, sched=None):
        sched = sched or {}
        self.exec = sched.get("exec", [])
        self.comp = sched.get("comp", [])
        self.lazy = bool(sched.get("lazy", False))
        self.calls = 0
        self.log = []          # (kind, n, exec order, completion order)

    def next_call(self, n, kind):
        i = self.calls
        self.calls += 1
        e = perm_from_code(n, self.exec[i] if i < len(self.exec) else [])
        c = perm_from_code(n, self.comp[i] if i < len(self.comp) else [])
        self.log.append((kind, n, e, c if kind == "imap_unordered" else None))
        return e, c

    def nonidentity_calls(self):
        return sum(1 for k, n, e, c in self.log if n >= 2 and (e != sorted(e) or (c is not None and c != sorted(c))))

    def max_tasks(self):
        return max([n for k, n, e, c in self.log] or [0])


CURRENT = Schedule()


def set_schedule(sched=None):
    global CURRENT
    CURRENT = Schedule(sched)
    return CURRENT


class SchedPool:
    dumps = staticmethod(pickle.dumps)
    loads = staticmethod(pickle.loads)

    def __init__(self, *a, **k):
        pass

    def _call(self, f, arg):
        arg = self.loads(self.dumps(arg))
        return self.loads(self.dumps(f(arg)))

    def _prepare(self, f, it, kind):
        self.dumps(f)       # a task function a real pool could not send must fail here too
        tasks = list(it)
        e, c = CURRENT.next_call(len(tasks), kind)
        return tasks, e, c

    def map(self, f, it, chunksize=None):
        tasks, e, _ = self._prepare(f, it, "map")
        res = [None] * len(tasks)
        for i in e:
            res[i] = self._call(f, tasks[i])
        return res

    def imap(self, f, it, chunksize=None):
        tasks, e, _ = self._prepare(f, it, "imap")
        if not CURRENT.lazy:
            res = [None] * len(tasks)
            for i in e:
                res[i] = self._call(f, tasks[i])
            return iter(res)
        return self._lazy_ordered(f, tasks, e)

    def _lazy_ordered(self, f, tasks, e):
        done = {}
        pos = 0
        for want in range(len(tasks)):
            while want not in done:
                i = e[pos]
                pos += 1
                done[i] = self._call(f, tasks[i])
            yield done.pop(want)
        # tasks are never dropped: a real pool runs all submitted tasks
        while pos < len(e):
            self._call(f, tasks[e[pos]])
            pos += 1

    def imap_unordered(self, f, it, chunksize=None):
        tasks, e, c = self._prepare(f, it, "imap_unordered")
        if not CURRENT.lazy:
            res = [None] * len(tasks)
            for i in e:
                res[i] = self._call(f, tasks[i])
            return iter([res[i] for i in c])
        return (self._call(f, tasks[i]) for i in c)

    # pathos spelling
    uimap = imap_unordered

    def __enter__(self):
        return self

    def __exit__(self, *a):
        return False

    def close(self):
        pass

    def join(self):
        pass

    def terminate(self):
        pass

    def clear(self):
        pass

    def restart(self, *a, **k):
        pass


class DillSchedPool(SchedPool):
    dumps = staticmethod(dill.dumps)
    loads = staticmethod(dill.loads)
