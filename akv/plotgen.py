"""Generator of well-formed AMReX plotfiles.

Hypothesis strategies produce a JSON-able *spec*; ``Plot(spec)`` derives the mesh,
layout, geometry and payload (a pure function of the spec); ``write(plot, path)``
materialises it.  Shares no code with amr_kitchen.  See DESIGN.md 2.2 / 2.3.
"""
import itertools
import os
import random

import numpy as np
from hypothesis import strategies as st

FABPFX = "FAB ((8, (64 11 52 0 1 12 0 1023)),(8, (8 7 6 5 4 3 2 1)))"

FIELD_POOL = ["temp", "density", "x_velocity", "y_velocity", "Y(H2)", "Y(O2)", "mag_vort",
              "phi", "phi2", "a", "banana", "rhoh", "foo_bar", "HeatRelease", "Y(N2)",
              "pressure", "volFrac", "Y(CH2(S))", "avg.p", "z_velocity",
              # names differing from another one by letter case only, or by a suffix
              "Temp", "Y(h2)", "temp_2", "phi "[:3] + "_x",
              # names that read as numbers (tracers numbered by the user)
              "1", "2", "1e3"]

LENGTHS = [1.0, 0.016, 0.32, 2.5, 100.0, 0.001, 0.7, 12.8]
ORIGINS = [0.0, 0.5, -0.5, 1.0, -1.0, 3.7, -3.7, 10.0, -10.0, 0.123]
TIMES = [0.25, 0.0, 1.3924182125972017e-08, -2.5, 1e-300, 70100.0, 0.49947225144556617, 3.0, 6.96e-10, 1e+20, 1e-05, 123456789.0]


# --------------------------------------------------------------------------- strategies

@st.composite
def mesh_specs(draw, ndims=None, min_levels=1, max_levels=3, max_cells=6000,
               layouts=("single", "scatter", "nonmono"), force_no_unit=None, max_nb0=5, thin=False):
    nd = draw(st.sampled_from([2, 3])) if ndims is None else ndims
    bf = draw(st.sampled_from([2, 4, 8]))
    m = draw(st.integers(1, 3))                          # max box extent = m*bf
    nb0 = [draw(st.integers(1, max_nb0)) for _ in range(nd)]   # blocks per dim at level 0
    no_unit = draw(st.booleans()) if force_no_unit is None else force_no_unit
    if no_unit:
        nb0 = [max(2, n) for n in nb0]
    while int(np.prod(nb0)) * bf ** nd > max_cells:
        i = int(np.argmax(nb0))
        if nb0[i] <= (2 if no_unit else 1):
            if bf == 2:
                break
            bf //= 2
            continue
        nb0[i] -= 1
    nlev = draw(st.integers(min_levels, max_levels))
    rects = []   # per finer level: list of rectangles in fine-block coords (lo, size)
    for l in range(1, nlev):
        nbl = [n * 2 ** l for n in nb0]
        k = draw(st.integers(1, 3))
        rs = []
        cap = 4 if bf <= 4 else 2
        if nd == 3 and l >= 2:
            cap = min(cap, 3)
        for _ in range(k):
            lo = [draw(st.integers(0, nbl[d] - 1)) for d in range(nd)]
            sz = [draw(st.integers(1, max(1, min(cap, nbl[d] - lo[d])))) for d in range(nd)]
            rs.append([lo, sz])
        rects.append(rs)
    chop_seed = draw(st.one_of(st.just(0), st.integers(1, 2 ** 16)))
    order_seed = draw(st.one_of(st.just(0), st.integers(1, 2 ** 16)))
    lcls = draw(st.sampled_from(list(layouts)))
    layout = dict(cls=lcls, seed=draw(st.integers(0, 2 ** 16)),
                  nfiles=1 if lcls == "single" else draw(st.integers(2 if lcls == "scatter" else 1, 4)))
    ms = dict(ndims=nd, bf=bf, m=m, nb0=nb0, nlev=nlev, rects=rects, no_unit=no_unit,
              chop_seed=chop_seed, order_seed=order_seed, layout=layout)
    if nlev >= 2 and draw(st.integers(0, 2 ** 16)) % 10 == 0:
        # every level refines the whole level below it (all coarser cells are covered); kept small
        ms.update(full=True, bf=2, nb0=[min(n, 2) for n in nb0], nlev=min(nlev, 3))
        ms["rects"] = ms["rects"][:ms["nlev"] - 1]
    if thin:
        # level-0 boxes one cell thick (legal with blocking factor 1; finer levels stay coarsenable): a quarter of the meshes
        ms["thin0"] = [0, 0, 0, 0, 0, 0, 1, 2][draw(st.integers(0, 2 ** 16)) % 8] and draw(st.integers(1, 2 ** 16))
    return ms


@st.composite
def layouts(draw, classes=("single", "scatter", "nonmono")):
    lcls = draw(st.sampled_from(list(classes)))
    return dict(cls=lcls, seed=draw(st.integers(0, 2 ** 16)),
                nfiles=1 if lcls == "single" else draw(st.integers(2 if lcls == "scatter" else 1, 4)))


@st.composite
def geom_specs(draw, ndims, origin=True, aniso=True):
    iso = (not aniso) or draw(st.booleans())
    if iso:
        L = draw(st.sampled_from(LENGTHS))
        lengths = [L] * ndims
    else:
        lengths = [draw(st.sampled_from(LENGTHS)) for _ in range(ndims)]
    if origin and draw(st.booleans()):
        # |origin| <= 10 x domain length: keeps numpy.isclose bands used by the tools well below one cell
        orig = [draw(st.sampled_from(ORIGINS)) * lengths[d] for d in range(ndims)]
    else:
        orig = [0.0] * ndims
    return dict(iso=iso, lengths=lengths, origin=orig)


@st.composite
def field_lists(draw, min_size=1, max_size=6, pool=None, required=(), many=False):
    pool = list(pool or FIELD_POOL)
    n = draw(st.integers(min_size, max_size))
    if many and draw(st.integers(0, 2 ** 16)) % 12 == 0:
        # a long field list (header tables many columns wide, component offsets far into a FAB)
        n = draw(st.integers(12, 45))
        pool = pool + [f"aux_{i:02d}" for i in range(40)]
    names = list(required)
    rest = [p for p in pool if p not in names]
    if len(names) < n:
        idx = draw(st.lists(st.integers(0, len(rest) - 1), min_size=n - len(names),
                            max_size=n - len(names), unique=True))
        names += [rest[i] for i in idx]
    if len(names) > 1 and draw(st.booleans()):
        perm = draw(st.permutations(range(len(names))))
        names = [names[i] for i in perm]
    return names


@st.composite
def payloads(draw, kinds=("coded", "random", "special")):
    kind = draw(st.sampled_from(list(kinds)))
    out = dict(kind=kind, seed=0 if kind == "coded" else draw(st.integers(0, 2 ** 16)))
    if draw(st.integers(0, 2 ** 16)) % 4 == 0:
        # about a third of the boxes hold exactly 0.0 everywhere, in all components or in one
        out["zero_boxes"] = draw(st.integers(1, 2 ** 16))
    if kind == "special" and draw(st.integers(0, 2 ** 16)) % 3 == 0:
        # finite values whose text form is as long as a float64 gets: negative, 17 significant digits, three-digit
        # exponent (24 characters in a level-header min/max row), next to the largest and smallest negative doubles
        out["mag3"] = True
    return out


@st.composite
def plot_specs(draw, ndims=None, min_levels=1, max_levels=3, max_cells=6000, min_fields=1,
               max_fields=6, payload_kinds=("coded", "random", "special"), origin=True,
               aniso=True, fields=None, layouts=("single", "scatter", "nonmono"),
               force_no_unit=None, field_pool=None, required_fields=(), max_nb0=5, thin=False, many=False, level_prefix=False):
    mesh = draw(mesh_specs(ndims=ndims, min_levels=min_levels, max_levels=max_levels,
                           max_cells=max_cells, layouts=layouts, force_no_unit=force_no_unit,
                           max_nb0=max_nb0, thin=thin))
    geom = draw(geom_specs(mesh["ndims"], origin=origin, aniso=aniso))
    flds = fields if fields is not None else draw(field_lists(min_fields, max_fields, pool=field_pool,
                                                              required=required_fields, many=many))
    if len(flds) > 12:
        # keep the byte count of a many-field plotfile in line with the others
        while int(np.prod(mesh["nb0"])) * mesh["bf"] ** mesh["ndims"] * len(flds) > 4 * max_cells and max(mesh["nb0"]) > 1:
            mesh["nb0"][int(np.argmax(mesh["nb0"]))] -= 1
    extra = {}
    if mesh["ndims"] == 2 and draw(st.integers(0, 2 ** 16)) % 4 == 0:
        extra["coord_sys"] = 1                  # cylindrical (r, z): legal for 2D plotfiles, carried by the Header only
    if level_prefix and draw(st.integers(0, 2 ** 16)) % 5 == 0:
        extra["level_prefix"] = draw(st.sampled_from(["Lev_", "amr_level", "L"]))
    return dict(mesh=mesh, geom=geom, fields=list(flds), **extra,
                time=draw(st.sampled_from(TIMES)), step=draw(st.sampled_from([7, 0, 70100])),
                payload=draw(payloads(payload_kinds)),
                style=draw(st.sampled_from(["amrex", "tool", "decimal15"])),
                bounds_jitter=draw(st.sampled_from([0, 0, 0, 1, 2, 3, 5, 8])),
                extra_factors=draw(st.sampled_from([0, 0, 1, 2])))


# --------------------------------------------------------------------------- mesh construction

def _tile1d(n, m, rng, no_unit):
    out = []
    p = 0
    while p < n:
        rem = n - p
        cands = [e for e in range(1, m + 1) if e <= rem]
        if no_unit and n >= 2:
            cands = [e for e in (2, 3) if e <= rem and rem - e != 1] or [rem]
        e = max(cands) if rng is None else rng.choice(cands)
        out.append((p, e))
        p += e
    return out


def build_mesh(ms):
    """-> list per level of dict(boxes=[(lo, hi)], files=[...], order={file: perm}); pure function of ms."""
    nd, bf, m = ms["ndims"], ms["bf"], ms["m"]
    no_unit = ms.get("no_unit", False)
    levels = []
    region = set(itertools.product(*[range(n) for n in ms["nb0"]]))
    for l in range(ms["nlev"]):
        if l > 0:
            children = set()
            for b in region:
                for off in itertools.product((0, 1), repeat=nd):
                    children.add(tuple(2 * b[d] + off[d] for d in range(nd)))
            sel = set()
            for lo, sz in ms["rects"][l - 1]:
                for c in itertools.product(*[range(lo[d], lo[d] + sz[d]) for d in range(nd)]):
                    if c in children:
                        sel.add(c)
            if not sel:
                sel = {min(children)}
            if ms.get("full"):
                sel = children
            region = sel
        rng = random.Random(ms["chop_seed"] * 7 + l) if ms["chop_seed"] else None
        todo = set(region)
        boxes = []
        dropped = set()
        if l == 0:
            tl = [_tile1d(ms["nb0"][d], m, rng, no_unit) for d in range(nd)]
            for combo in itertools.product(*tl):
                boxes.append((tuple(c[0] * bf for c in combo), tuple((c[0] + c[1]) * bf - 1 for c in combo)))
            todo = set()
            if ms.get("thin0"):
                # peel one-cell-thick slabs off the low face of some boxes along a drawn direction (up to three per box)
                trng = random.Random(ms["thin0"])
                out = []
                for lo, hi in boxes:
                    d = trng.randrange(nd)
                    k = trng.choice([0, 1, 1, 2, 3])
                    lo = list(lo)
                    while k > 0 and hi[d] - lo[d] >= 1:
                        slab_hi = list(hi)
                        slab_hi[d] = lo[d]
                        out.append((tuple(lo), tuple(slab_hi)))
                        lo[d] += 1
                        k -= 1
                    out.append((tuple(lo), tuple(hi)))
                boxes = out
        for b in sorted(region, key=lambda t: t[::-1]):
            if b not in todo:
                continue
            ext = [1] * nd
            for d in range(nd):
                target = m if rng is None else rng.randint(1, m)
                if no_unit:
                    target = max(2, target) if rng is None else rng.choice([2, 3])
                while ext[d] < target:
                    cand = [tuple(b[k] + (o[k] if k != d else ext[d]) for k in range(nd))
                            for o in itertools.product(*[range(ext[k]) if k != d else [0] for k in range(nd)])]
                    if all(c in todo for c in cand):
                        ext[d] += 1
                    else:
                        break
            blk = [tuple(b[k] + o[k] for k in range(nd)) for o in itertools.product(*[range(e) for e in ext])]
            for c in blk:
                todo.discard(c)
            if no_unit and min(ext) == 1 and l > 0 and (boxes or todo):
                dropped.update(blk)
                continue
            boxes.append((tuple(b[d] * bf for d in range(nd)), tuple((b[d] + ext[d]) * bf - 1 for d in range(nd))))
        region = region - dropped
        if not boxes:
            b = min(region | dropped)
            boxes.append((tuple(b[d] * bf for d in range(nd)), tuple((b[d] + 1) * bf - 1 for d in range(nd))))
            region = {b}
        if ms["order_seed"]:
            random.Random(ms["order_seed"] * 11 + l).shuffle(boxes)
        files, order = assign_layout(ms["layout"], len(boxes), l)
        levels.append(dict(boxes=[(list(lo), list(hi)) for lo, hi in boxes], files=files, order=order))
    return levels


def assign_layout(layout, nb, l):
    """files[b] = binary file index of header box b; order[f] = on-disk order (permutation of the
    positions, in header order, of the boxes stored in file f)."""
    cls = layout["cls"]
    if cls == "single":
        return [0] * nb, {}
    if cls == "perbox":
        # one binary file per box (a run on as many ranks as boxes): dozens of files in a level
        return list(range(nb)), {}
    r = random.Random(layout["seed"] * 13 + l)
    nfiles = layout["nfiles"]
    files = [r.randrange(nfiles) for _ in range(nb)]
    if cls == "scatter" and nb >= 2 and len(set(files)) == 1:
        files[r.randrange(nb)] = (files[0] + 1) % nfiles
    order = {}
    if cls == "nonmono":
        for fi in sorted(set(files)):
            p = list(range(files.count(fi)))
            if len(p) > 1:
                q = p[:]
                r.shuffle(q)
                if q == p:
                    q = p[1:] + p[:1]
                p = q
            order[fi] = p
    return files, order


# --------------------------------------------------------------------------- the Plot object

def _fmt17(x):
    return "%.17g" % x


class Plot:
    """Everything the headers and binaries of a generated plotfile state, as plain data."""

    def __init__(self, spec, data_fn=None):
        self.spec = spec
        ms = spec["mesh"]
        self.ndims = nd = ms["ndims"]
        self.fields = list(spec["fields"])
        self.nf = len(self.fields)
        self.levels = build_mesh(ms) if "levels" not in spec else spec["levels"]
        if "layout_override" in spec:       # same mesh, other binary layout (C06, C09)
            for l, lv in enumerate(self.levels):
                lv["files"], lv["order"] = assign_layout(spec["layout_override"], len(lv["boxes"]), l)
        self.nlev = len(self.levels)
        self.n0 = [n * ms["bf"] for n in ms["nb0"]]
        # optional shift of the whole index space (AMReX allows domains whose low index is not 0, e.g. centred on the
        # origin); given in level-0 blocks.  Only the byte-level reader checks use it: the tools' metadata assume 0.
        self.shift0 = [int(x) * ms["bf"] for x in spec.get("index_shift", [0] * nd)]
        if any(self.shift0):
            for l, lv in enumerate(self.levels):
                lv["boxes"] = [([lo[d] + self.shift0[d] * 2 ** l for d in range(nd)], [hi[d] + self.shift0[d] * 2 ** l for d in range(nd)])
                               for lo, hi in lv["boxes"]]
        g = spec["geom"]
        self.geo_lo = [float(x) for x in g["origin"]]
        if g.get("iso"):
            dx0 = g["lengths"][0] / self.n0[0]
            # isotropic cells: the domain length follows from the cell size
            self.geo_hi = [self.geo_lo[d] + dx0 * self.n0[d] for d in range(nd)]
        else:
            self.geo_hi = [self.geo_lo[d] + float(g["lengths"][d]) for d in range(nd)]
        self.dx = [[(self.geo_hi[d] - self.geo_lo[d]) / (self.n0[d] * 2 ** l) for d in range(nd)]
                   for l in range(self.nlev)]
        self.time = float(spec["time"])
        self.step = int(spec.get("step", 7))
        self.style = spec.get("style", "amrex")
        # "decimal15": a writer that prints 15 significant digits.  Every number of the header is then rounded on its
        # own, so box bounds, cell sizes and domain bounds agree only to rounding - what the headers state is the truth.
        self._r = (lambda x: float("%.15g" % x)) if self.style == "decimal15" else (lambda x: x)
        if self.style == "decimal15":
            self.geo_lo = [self._r(x) for x in self.geo_lo]
            self.geo_hi = [self._r(x) for x in self.geo_hi]
            self.dx = [[self._r(x) for x in row] for row in self.dx]
            self.time = self._r(self.time) if self.time == self.time and abs(self.time) != float("inf") else self.time
        self.extra_factors = int(spec.get("extra_factors", 0))
        self.payload = spec.get("payload", dict(kind="coded", seed=0))
        self.data_fn = data_fn
        self._cache = {}

    # -- geometry
    def grid_size(self, l):
        return [n * 2 ** l for n in self.n0]

    def phys_box(self, l, b):
        lo, hi = self.levels[l]["boxes"][b]
        sh = [x * 2 ** l for x in self.shift0]
        out = [[self._r(self.geo_lo[d] + (lo[d] - sh[d]) * self.dx[l][d]), self._r(self.geo_lo[d] + (hi[d] + 1 - sh[d]) * self.dx[l][d])]
               for d in range(self.ndims)]
        j = int(self.spec.get("bounds_jitter", 0)) if self.style != "decimal15" else 0    # 15-digit text would round it away
        if j:
            # a writer whose arithmetic differs in the last bit (e.g. bounds computed from the high end): each stated
            # bound is the index-derived value moved by -1, 0 or +1 ulp.  The bounds are redundant information that
            # agrees with the index ranges to rounding; the stated values are the truth for the metadata checks.
            # The perturbation is a function of (level, direction, face index) only, as it is for any real writer: two
            # boxes sharing a face state the same number for it.
            for d in range(self.ndims):
                for side, face in ((0, lo[d]), (1, hi[d] + 1)):
                    k = (j * 2654435761 + l * 97 + d * 7 + (face & 0xFFFF) * 131) % 3 - 1
                    if k and out[d][side] != 0.0:      # an exact zero stays zero (its "ulp" would be a denormal, which no writer produces)
                        out[d][side] = float(np.nextafter(out[d][side], np.inf if k > 0 else -np.inf))
        return out

    def centres(self, l, d):
        n = self.grid_size(l)[d]
        return self.geo_lo[d] + (np.arange(n) + 0.5) * self.dx[l][d]

    def box_shape(self, l, b):
        lo, hi = self.levels[l]["boxes"][b]
        return tuple(hi[d] - lo[d] + 1 for d in range(self.ndims))

    # -- data
    def level_dir(self, l):
        """directory of level l as stated by the plotfile header (AMReX's levelPrefix is 'Level_' unless the writer chose another)"""
        return f"{self.spec.get('level_prefix', 'Level_')}{l}"

    def box_data(self, l, b):
        key = (l, b)
        if key not in self._cache:
            lo, hi = self.levels[l]["boxes"][b]
            if self.data_fn is not None:
                arr = self.data_fn(self, l, lo, hi)
            else:
                arr = PAYLOADS[self.payload["kind"]](self, l, lo, hi)
            arr = np.asarray(arr, dtype="<f8")
            assert arr.shape == self.box_shape(l, b) + (self.nf,), (arr.shape, self.box_shape(l, b), self.nf)
            zb = self.payload.get("zero_boxes")
            if zb:
                r = random.Random(f"{zb}/{l}/{list(lo)}")
                if r.random() < 0.35:
                    arr = arr.copy()
                    if r.random() < 0.5:
                        arr[...] = 0.0
                    else:
                        arr[..., r.randrange(self.nf)] = 0.0
            self._cache[key] = arr
        return self._cache[key]

    def covering(self, L, fi=None):
        """Covering grid at level L: finest data (<= L) wins, coarser cells replicated. -> (grid..., nsel)"""
        return covering_grid(self.ndims, self.grid_size(L), L,
                             [[(lo, hi, self.box_data(l, b) if fi is None else self.box_data(l, b)[..., fi])
                               for b, (lo, hi) in enumerate(self.levels[l]["boxes"])]
                              for l in range(L + 1)])

    def level_map(self, L):
        out = np.full(self.grid_size(L), -1, dtype=int)
        for l in range(L + 1):
            f = 2 ** (L - l)
            for lo, hi in self.levels[l]["boxes"]:
                sl = tuple(slice(lo[d] * f, (hi[d] + 1) * f) for d in range(self.ndims))
                out[sl] = l
        return out

    def covered_mask(self, l, L):
        """Boolean array over the level-l grid: True where a level l+1 (<= L) box covers the cell."""
        out = np.zeros(self.grid_size(l), dtype=bool)
        if l + 1 <= L and l + 1 < self.nlev:
            for lo, hi in self.levels[l + 1]["boxes"]:
                sl = tuple(slice(lo[d] // 2, hi[d] // 2 + 1) for d in range(self.ndims))
                out[sl] = True
        return out

    # -- classification labels for evidence
    def labels(self):
        nd = self.ndims
        lab = [f"{nd}D", f"L{self.nlev}"]
        exts = set(hi[d] - lo[d] + 1 for lv in self.levels for lo, hi in lv["boxes"] for d in range(nd))
        if len(exts) > 1:
            lab.append("mixed-extents")
        if any((hi[d] - lo[d] + 1) % min(exts) or lo[d] % min(exts)
               for lv in self.levels for lo, hi in lv["boxes"] for d in range(nd)):
            lab.append("unaligned-to-min-extent")
        if any(len(set(lv["files"])) > 1 for lv in self.levels):
            lab.append("scattered")
        if any(p != sorted(p) for lv in self.levels for p in lv["order"].values()):
            lab.append("non-monotone")
        for l in range(1, self.nlev):
            fine = sum(int(np.prod(self.box_shape(l, b))) for b in range(len(self.levels[l]["boxes"])))
            coarse = sum(int(np.prod(self.box_shape(l - 1, b))) for b in range(len(self.levels[l - 1]["boxes"])))
            if fine < coarse * 2 ** nd:
                lab.append("partial-refinement")
                break
        if len(set(self.n0)) > 1:
            lab.append("non-cubic")
        if self.spec["mesh"].get("full"):
            lab.append("fully-refined-levels")
        if self.nf > 12:
            lab.append("many-fields(>12)")
        if self.payload.get("zero_boxes"):
            lab.append("all-zero-boxes")
        if self.payload.get("mag3"):
            lab.append("24-character-extrema")
        if self.spec.get("coord_sys"):
            lab.append("coord-sys:RZ")
        if self.spec.get("level_prefix"):
            lab.append("custom-level-directories")
        if any(hi[d] == lo[d] for lv in self.levels for lo, hi in lv["boxes"] for d in range(nd)):
            lab.append("one-cell-thick-box")
        if max(len(lv["boxes"]) for lv in self.levels) > 1:
            lab.append("multi-box")
        if any(o != 0.0 for o in self.geo_lo):
            lab.append("origin!=0")
        if len(set(self.dx[0])) > 1:
            lab.append("anisotropic")
        if self.spec.get("bounds_jitter") and self.style != "decimal15":
            lab.append("bounds+-1ulp")
        if self.style == "decimal15":
            lab.append("15-digit-header")
        return lab

    def header_order_is_file_order(self, l):
        """True if within every binary file of level l the FABs are stored in header order."""
        return all(p == sorted(p) for p in self.levels[l]["order"].values())

    def disk_sequence(self, l):
        """{file index: [header box ids in on-disk order]}"""
        lv = self.levels[l]
        out = {}
        for fi in sorted(set(lv["files"])):
            bids = [b for b in range(len(lv["boxes"])) if lv["files"][b] == fi]
            order = lv["order"].get(fi, list(range(len(bids))))
            out[fi] = [bids[k] for k in order]
        return out


def covering_grid(nd, gshape, L, per_level):
    """per_level[l] = [(lo, hi, data(shape..., k))]"""
    k = per_level[0][0][2].shape[nd:]
    out = np.zeros(tuple(gshape) + tuple(k), dtype="<f8")
    for l, boxes in enumerate(per_level):
        f = 2 ** (L - l)
        for lo, hi, data in boxes:
            d = data
            for ax in range(nd):
                d = np.repeat(d, f, axis=ax)
            sl = tuple(slice(lo[a] * f, (hi[a] + 1) * f) for a in range(nd))
            out[sl] = d
    return out


# --------------------------------------------------------------------------- payloads

def _index_grids(lo, hi):
    return np.meshgrid(*[np.arange(lo[d], hi[d] + 1) for d in range(len(lo))], indexing="ij")


def coded_block(l, lo, hi, nf):
    """value = 2^40 (level+1) + 2^32 field + mixed-radix(1024) code of the global cell index; exact in f64."""
    idx = _index_grids(lo, hi)
    code = sum(idx[d].astype(np.float64) * (1024.0 ** d) for d in range(len(lo)))
    return np.stack([2.0 ** 40 * (l + 1) + 2.0 ** 32 * f + code for f in range(nf)], axis=-1)


def _payload_coded(plot, l, lo, hi):
    return coded_block(l, lo, hi, plot.nf)


def _box_rng(plot, l, lo):
    seed = [int(plot.payload.get("seed", 0)), l] + [int(x) & 0xFFFFFFFF for x in lo]
    return np.random.Generator(np.random.PCG64(seed))


def _payload_random(plot, l, lo, hi):
    shp = tuple(hi[d] - lo[d] + 1 for d in range(plot.ndims)) + (plot.nf,)
    r = _box_rng(plot, l, lo)
    scale = 10.0 ** r.integers(-3, 4, size=plot.nf)
    if plot.payload.get("wide"):
        # fields many decades apart in one box (an enthalpy next to a trace species)
        scale = 10.0 ** r.choice([-12, -3, 0, 4, 9], size=plot.nf)
    return r.uniform(-1.0, 1.0, size=shp) * scale


SPECIALS = np.array([0x7ff8000000000000, 0x7ff4000000000001, 0xfff8000000000123,   # quiet / signalling NaNs
                     0x7ff0000000000000, 0xfff0000000000000,                         # +-inf
                     0x0000000000000001, 0x8000000000000000, 0x7fefffffffffffff,     # denormal min, -0.0, DBL_MAX
                     0x000fffffffffffff], dtype="<u8").view("<f8")


LONG_TEXT = np.array([-3.4999999999999998e-120, -7.2500000000000004e+150, 3.4999999999999998e-120, -1.7976931348623157e+308,
                      -2.2250738585072014e-308, -4.9406564584124654e-324, -1.2345678901234567e-101, 9.8765432109876543e+199])


def _payload_special(plot, l, lo, hi):
    arr = _payload_random(plot, l, lo, hi)
    r = _box_rng(plot, l + 1000, lo)
    flat = arr.reshape(-1)
    k = max(1, flat.size // 9)
    pos = r.integers(0, flat.size, size=k)
    flat[pos] = SPECIALS[r.integers(0, len(SPECIALS), size=k)]
    if plot.payload.get("mag3"):
        r2 = _box_rng(plot, l + 2000, lo)
        k2 = max(1, flat.size // 6)
        pos2 = r2.integers(0, flat.size, size=k2)
        flat[pos2] = LONG_TEXT[r2.integers(0, len(LONG_TEXT), size=k2)]
    return arr


def _payload_sparse(plot, l, lo, hi):
    """random data with a single non-finite cell in one box of one (preferably finer) level"""
    arr = _payload_random(plot, l, lo, hi)
    seed = int(plot.payload.get("seed", 0))
    lv = plot.nlev - 1 - (seed % 2 if plot.nlev > 1 else 0) if seed % 5 else 0
    boxes = plot.levels[lv]["boxes"]
    blo = boxes[(seed // 7) % len(boxes)][0]
    if l == lv and list(lo) == list(blo):
        flat = arr.reshape(-1)
        flat[(seed // 3) % flat.size] = SPECIALS[[0, 0, 3, 4, 0][seed % 5]]
    return arr


PAYLOADS = {"coded": _payload_coded, "random": _payload_random, "special": _payload_special, "sparse": _payload_sparse}


# --------------------------------------------------------------------------- writer

def fab_header(lo, hi, nf):
    z = ",".join("0" for _ in lo)
    return (FABPFX + "((" + ",".join(map(str, lo)) + ") (" + ",".join(map(str, hi)) + ") (" + z
            + f")) {nf}\n").encode("ascii")


def minmax_rows(arr, nf):
    d = arr.reshape(-1, nf)
    with np.errstate(invalid="ignore"):
        return np.min(d, axis=0), np.max(d, axis=0)


def write(plot, path):
    """Materialise a Plot as a plotfile directory.  Returns {level: [offset per header box]}."""
    nd, nf, L = plot.ndims, plot.nf, plot.nlev - 1
    amrex = plot.style in ("amrex", "decimal15")
    fmt = _fmt17 if plot.style == "amrex" else ((lambda x: "%.15g" % x) if plot.style == "decimal15" else (lambda x: repr(float(x))))
    tb = " " if amrex else ""
    os.makedirs(path)
    z = ",".join("0" for _ in range(nd))
    with open(os.path.join(path, "Header"), "w") as h:
        h.write("HyperCLaw-V1.1\n")
        h.write(f"{nf}\n")
        for f in plot.fields:
            h.write(f + "\n")
        h.write(f"{nd}\n")
        h.write(fmt(plot.time) + "\n")
        h.write(f"{L}\n")
        h.write(" ".join(fmt(x) for x in plot.geo_lo) + tb + "\n")
        h.write(" ".join(fmt(x) for x in plot.geo_hi) + tb + "\n")
        h.write(" ".join("2" for _ in range(L + plot.extra_factors)) + tb + "\n")
        dom = []
        for l in range(L + 1):
            sh = [x * 2 ** l for x in plot.shift0]
            dom.append(f"(({','.join(str(x) for x in sh)}) ({','.join(str(n - 1 + x) for n, x in zip(plot.grid_size(l), sh))}) ({z}))")
        h.write(" ".join(dom) + tb + "\n")
        h.write(" ".join(str(plot.step) for _ in range(L + 1)) + tb + "\n")
        for l in range(L + 1):
            h.write(" ".join(fmt(x) for x in plot.dx[l]) + tb + "\n")
        h.write(f"{int(plot.spec.get('coord_sys', 0))}\n0\n")
        for l, lev in enumerate(plot.levels):
            h.write(f"{l} {len(lev['boxes'])} {fmt(plot.time)}\n")
            h.write(f"{plot.step}\n")
            for b in range(len(lev["boxes"])):
                for a, c in plot.phys_box(l, b):
                    h.write(f"{fmt(a)} {fmt(c)}\n")
            h.write(f"{plot.level_dir(l)}/Cell\n")
    all_offsets = {}
    for l, lev in enumerate(plot.levels):
        ld = os.path.join(path, plot.level_dir(l))
        os.makedirs(ld)
        nb = len(lev["boxes"])
        offsets = [None] * nb
        for fi, seq in plot.disk_sequence(l).items():
            with open(os.path.join(ld, f"Cell_D_{fi:05d}"), "wb") as bf:
                for b in seq:
                    offsets[b] = bf.tell()
                    lo, hi = lev["boxes"][b]
                    bf.write(fab_header(lo, hi, nf))
                    bf.write(plot.box_data(l, b).flatten(order="F").tobytes())
        all_offsets[l] = offsets
        with open(os.path.join(ld, "Cell_H"), "w") as c:
            c.write("1\n1\n%d\n0\n" % nf)
            c.write(f"({nb} 0\n")
            for lo, hi in lev["boxes"]:
                c.write(f"(({','.join(map(str, lo))}) ({','.join(map(str, hi))}) ({z}))\n")
            c.write(")\n")
            c.write(f"{nb}\n")
            for b in range(nb):
                c.write(f"FabOnDisk: Cell_D_{lev['files'][b]:05d} {offsets[b]}\n")
            c.write("\n")
            rows = [minmax_rows(plot.box_data(l, b), nf) for b in range(nb)]
            c.write(f"{nb},{nf}\n")
            for mn, _ in rows:
                c.write(",".join("%.16e" % v for v in mn) + ",\n")
            c.write("\n")
            c.write(f"{nb},{nf}\n")
            for _, mx in rows:
                c.write(",".join("%.16e" % v for v in mx) + ",\n")
            c.write("\n")
    return all_offsets
