"""Generator of PeleLMeX-style checkpoints, modelled line by line on test_assets/example_chk_3d (DESIGN.md 2.5).

A checkpoint spec = a 3D plot spec (mesh, geometry, time) + nspec, ghost width, per-subset layouts, header variant.
``Checkpoint(spec)`` derives everything; ``write(chk, path)`` materialises it.  Shares no code with amr_kitchen.
"""
import os

import numpy as np
from hypothesis import strategies as st

from . import plotgen

SUBSETS = ["state", "gradp", "I_R", "divU", "p"]
SPECIES_POOL = ["H2", "CH2(S)", "O2", "H2O", "N2", "OH", "CH4", "CO2"]       # a name with parentheses among the first


@st.composite
def chk_specs(draw, tier="quick"):
    base = draw(plotgen.plot_specs(thin=True, ndims=3, max_levels=4, max_cells=1200 if tier == "quick" else 4000, fields=["x"],
                                   payload_kinds=("coded",), layouts=("single",)))
    if base["mesh"]["nlev"] == 4:
        base["mesh"]["nb0"] = [min(n, 2) for n in base["mesh"]["nb0"]]       # four levels: keep the finest grid small
    nspec = draw(st.integers(1, 5))
    big = draw(st.integers(0, 2 ** 16)) % 25 == 7
    if big:
        # eight 16^3 boxes on one level, all five data subsets in one file each: the state file and the written Cell_D file
        # pass one megabyte, so byte offsets gain a seventh digit
        base["mesh"].update(bf=8, m=2, nb0=[4, 4, 4], nlev=1, rects=[], no_unit=False, chop_seed=0, thin0=0)
    huge = (not big) and draw(st.integers(0, 2 ** 16)) % 40 == 11
    if huge:
        # one box of 36^3 cells on one level: every FAB of the box (state, gradp, I_R for >= 3 species) is larger than one
        # mebibyte, so is each written Cell_D FAB
        base["mesh"].update(bf=4, m=9, nb0=[9, 9, 9], nlev=1, rects=[], no_unit=False, chop_seed=0, thin0=0, full=False)
    # non-integral times only: the reader's "value % 1 == 0" test for the optional integer line is a format ambiguity
    time = draw(st.sampled_from([1.6457727058794072e-11, 0.25, 3.5, -2.5, 70100.125, 1e-300]))
    return dict(mesh=base["mesh"], geom=base["geom"], time=time, step=draw(st.sampled_from([5, 0, 70100])),
                nspec=nspec, nghost=draw(st.integers(1, 3)), int_line=draw(st.booleans()),
                coord_line=draw(st.sampled_from([True, True, False])),
                layouts={s: (dict(cls="single", seed=0, nfiles=1) if (big or huge) else draw(plotgen.layouts())) for s in SUBSETS},
                huge=huge,
                seed=draw(st.integers(0, 9999)), big=big, ynorm=draw(st.integers(0, 2 ** 16)) % 3 == 0,
                # cells without any species (covered / embedded-boundary cells): every mass fraction exactly 0.0
                yzero=draw(st.integers(0, 2 ** 16)) % 4 == 0)


class Checkpoint:
    def __init__(self, spec):
        self.spec = spec
        geo = plotgen.Plot(dict(mesh=spec["mesh"], geom=spec["geom"], fields=["x"], time=spec["time"], step=spec["step"]))
        self.plot = geo
        self.nlev = geo.nlev
        self.levels = geo.levels               # header box order (files/order here belong to nothing)
        self.geo_lo, self.geo_hi, self.dx = geo.geo_lo, geo.geo_hi, geo.dx
        self.time = float(spec["time"])
        self.step = int(spec["step"])
        self.nspec = spec["nspec"]
        self.nghost = spec["nghost"]
        self.ncomp = dict(state=4 + self.nspec + 3, gradp=3, I_R=self.nspec, divU=1, p=1)
        self.ghost = dict(state=self.nghost, gradp=0, I_R=0, divU=1, p=1)
        self.layout = {}
        for s in SUBSETS:
            self.layout[s] = [plotgen.assign_layout(spec["layouts"][s], len(lv["boxes"]), l)
                              for l, lv in enumerate(self.levels)]
        self._cache = {}

    def fab_range(self, sub, l, b):
        lo, hi = self.levels[l]["boxes"][b]
        g = self.ghost[sub]
        nodal = 1 if sub == "p" else 0
        return [x - g for x in lo], [x + g + nodal for x in hi]

    def data(self, sub, l, b):
        """FAB contents incl. ghost cells, shape (nx+2g, ny+2g, nz+2g, ncomp)"""
        key = (sub, l, b)
        if key not in self._cache:
            glo, ghi = self.fab_range(sub, l, b)
            shp = tuple(ghi[d] - glo[d] + 1 for d in range(3)) + (self.ncomp[sub],)
            r = np.random.Generator(np.random.PCG64([self.spec["seed"], SUBSETS.index(sub), l] + [int(x) + 10 for x in glo]))
            arr = r.uniform(-2.0, 2.0, size=shp)
            if sub == "state":
                arr[..., 3] = r.uniform(0.1, 2.0, size=shp[:3])                      # density
                arr[..., 4:4 + self.nspec] = r.uniform(0.05, 1.0, size=shp[:3] + (self.nspec,))   # Y: positive, sum != 1
                arr[..., -2] = r.uniform(300.0, 2500.0, size=shp[:3])               # temp
                if self.spec.get("ynorm"):
                    # a solver's mass fractions: they sum to one up to a conservation error of a few 1e-6
                    Y = arr[..., 4:4 + self.nspec]
                    Y /= Y.sum(axis=-1, keepdims=True)
                    Y *= (1.0 + r.uniform(-3e-6, 3e-6, size=shp[:3]))[..., np.newaxis]
                if self.spec.get("yzero"):
                    rz = np.random.Generator(np.random.PCG64([self.spec["seed"], 77, l] + [int(x) + 10 for x in glo]))
                    arr[..., 4:4 + self.nspec][rz.random(shp[:3]) < 0.12] = 0.0
            self._cache[key] = arr
        return self._cache[key]

    def interior(self, sub, l, b):
        g = self.ghost[sub]
        d = self.data(sub, l, b)
        return d[g:d.shape[0] - g, g:d.shape[1] - g, g:d.shape[2] - g, :] if g else d

    def disk_sequence(self, sub, l):
        files, order = self.layout[sub][l]
        out = {}
        for fi in sorted(set(files)):
            bids = [b for b in range(len(files)) if files[b] == fi]
            o = order.get(fi, list(range(len(bids))))
            out[fi] = [bids[k] for k in o]
        return out

    def labels(self):
        lab = self.plot.labels()
        lab = [x for x in lab if x not in ("scattered", "non-monotone")]
        for s in ("state", "gradp", "I_R"):
            if any(len(set(self.layout[s][l][0])) > 1 for l in range(self.nlev)):
                lab.append(f"{s}:scattered")
            if any(p != sorted(p) for l in range(self.nlev) for p in self.layout[s][l][1].values()):
                lab.append(f"{s}:non-monotone")
        if any(self.layout["state"][l] != self.layout["gradp"][l] for l in range(self.nlev)):
            lab.append("state/gradp-layouts-differ")
        if self.spec.get("big"):
            lab.append("state-file>1MB")
        if self.spec.get("ynorm"):
            lab.append("mass-fractions-sum-to-1+-3e-6")
        if self.spec.get("yzero"):
            lab.append("cells-without-species(sum=0)")
        if self.spec.get("huge"):
            lab.append("one-box-of-36^3-cells(FABs>1MiB)")
        return lab


def _fmt(x):
    return "%.17g" % x


def write(chk, path):
    os.makedirs(path)
    L = chk.nlev - 1
    with open(os.path.join(path, "Header"), "w") as h:
        h.write("Checkpoint version: 1\n%d\n%d\n" % (L, chk.step))
        if chk.spec["int_line"]:
            h.write("3\n")
        h.write(_fmt(chk.time) + "\n" + _fmt(3.946824488833992e-12) + "\n" + _fmt(3.5880222625763559e-12) + "\n")
        h.write(" ".join(_fmt(x) for x in chk.geo_lo) + " \n" + " ".join(_fmt(x) for x in chk.geo_hi) + " \n")
        for lv in chk.levels:
            h.write(f"({len(lv['boxes'])} 0\n")
            for lo, hi in lv["boxes"]:
                h.write(f"(({','.join(map(str, lo))}) ({','.join(map(str, hi))}) (0,0,0))\n")
            h.write(")\n")
        h.write("101325\n")
        if chk.spec["coord_line"]:
            h.write("0\n0\n")
        for i in range(chk.ncomp["state"] + 1):
            h.write(_fmt(0.5 + 0.37 * i) + "\n")
    for l, lv in enumerate(chk.levels):
        ld = os.path.join(path, f"Level_{l}")
        os.makedirs(ld)
        nb = len(lv["boxes"])
        for sub in SUBSETS:
            nf = chk.ncomp[sub]
            files, _ = chk.layout[sub][l]
            offsets = [None] * nb
            for fi, seq in chk.disk_sequence(sub, l).items():
                with open(os.path.join(ld, f"{sub}_D_{fi:05d}"), "wb") as bf:
                    for b in seq:
                        offsets[b] = bf.tell()
                        glo, ghi = chk.fab_range(sub, l, b)
                        hdr = plotgen.fab_header(glo, ghi, nf)
                        if sub == "p":
                            hdr = hdr.replace(b"(0,0,0))", b"(1,1,1))")
                        bf.write(hdr)
                        bf.write(chk.data(sub, l, b).flatten(order="F").tobytes())
            with open(os.path.join(ld, f"{sub}_H"), "w") as c:
                c.write(f"1\n1\n{nf}\n{chk.ghost[sub]}\n({nb} 0\n")
                for lo, hi in lv["boxes"]:
                    if sub == "p":
                        c.write(f"(({','.join(map(str, lo))}) ({','.join(str(x + 1) for x in hi)}) (1,1,1))\n")
                    else:
                        c.write(f"(({','.join(map(str, lo))}) ({','.join(map(str, hi))}) (0,0,0))\n")
                c.write(")\n%d\n" % nb)
                for b in range(nb):
                    c.write(f"FabOnDisk: {sub}_D_{files[b]:05d} {offsets[b]}\n")
                c.write("\n%d,%d\n" % (nb, nf))
                for b in range(nb):
                    c.write(",".join("%.16e" % v for v in chk.data(sub, l, b).reshape(-1, nf).min(axis=0)) + ",\n")
                c.write("\n%d,%d\n" % (nb, nf))
                for b in range(nb):
                    c.write(",".join("%.16e" % v for v in chk.data(sub, l, b).reshape(-1, nf).max(axis=0)) + ",\n")
                c.write("\n")
