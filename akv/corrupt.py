"""Corruption / benign-edit operators on a written plotfile tree, and the reference structural validator.

Every operator is plain data: dict(kind=..., lv=..., box=..., amt=..., dim=...) applied to the tree by
``apply(path, op)``.  Sites are resolved modulo the actual counts so that any drawn integers are valid.
``validate(path, limit, coords)`` is the independent oracle for C04 / C20 (DESIGN.md 2.4).
"""
import collections
import os
import re

import numpy as np
from hypothesis import strategies as st

from . import refread

# kinds whose effect is an inconsistency of a C04 class (unless it cancels with another edit)
HARD = ["del_file", "truncate", "extend", "insert_boundary", "insert_data", "remove_data", "fab_shape", "fab_ncomp",
        "fab_shift", "cellh_shift", "cellh_reshape", "cellh_delbox", "cellh_delbox_fix", "cellh_delfod",
        "cellh_delfod_fix", "cellh_garble_box", "cellh_garble_tokens", "fod_garble_offset", "fod_garble_tokens",
        "fod_nofile", "fod_other", "fod_data", "fod_eof", "fod_negative", "del_cellh", "del_both_fix",
        "fab_ncomp_consistent", "nfields_plus", "pad_fix"]
COORD = ["bounds_shift", "bounds_nonfinite"]
# kinds that tend to survive validation (C20's domain)
SOFT = ["off_prefix", "ws_cellh", "ws_header", "fab_prefix_text", "swap_pairs", "minmax_edit", "payload_flip",
        "fod_other_samebox", "swap_fod_only", "fod_path", "level_time", "fab_long_header"]

C04_CLASS = {"del_file": "missing-file", "del_cellh": "level-header", "truncate": "layout", "extend": "layout",
             "insert_boundary": "layout", "insert_data": "layout", "remove_data": "layout", "fab_shape": "layout",
             "fab_ncomp": "layout", "fab_shift": "index-range", "cellh_shift": "index-range",
             "cellh_reshape": "index-range", "cellh_delbox": "level-header", "cellh_delbox_fix": "level-header",
             "cellh_delfod": "level-header", "cellh_delfod_fix": "level-header", "cellh_garble_box": "level-header",
             "cellh_garble_tokens": "level-header", "fod_garble_offset": "level-header",
             "fod_garble_tokens": "level-header", "fod_nofile": "level-header", "fod_other": "level-header",
             "fod_data": "level-header", "fod_eof": "level-header", "fod_negative": "level-header",
             "del_both_fix": "level-header", "bounds_shift": "coordinates", "bounds_nonfinite": "coordinates", "fab_ncomp_consistent": "layout",
             "nfields_plus": "layout", "pad_fix": "layout"}


def op_strategy(kinds, max_lv=3):
    return st.fixed_dictionaries(dict(kind=st.sampled_from(list(kinds)), lv=st.integers(0, max_lv),
                                      box=st.integers(0, 40), amt=st.sampled_from([1, 3, 8, 64, 4096]),
                                      dim=st.integers(0, 2), side=st.integers(0, 1)))


# --------------------------------------------------------------------------- tree info

def cellh_path(p, l):
    return os.path.join(p, f"Level_{l}", "Cell_H")


def tree_info(p):
    """Positions inside Cell_H of every level, as written by plotgen (pristine layout)."""
    with open(os.path.join(p, "Header")) as f:
        L = f.read().split("\n")
    nf = int(L[1])
    nd = int(L[2 + nf])
    maxlev = int(L[4 + nf])
    out = []
    for l in range(maxlev + 1):
        if not os.path.exists(cellh_path(p, l)):
            out.append(None)
            continue
        with open(cellh_path(p, l)) as f:
            t = f.read().split("\n")
        nb = int(t[4].split()[0].lstrip("("))
        fod = []
        for b in range(nb):
            toks = t[5 + nb + 2 + b].split()
            fod.append((toks[1], int(toks[2])))
        out.append(dict(nb=nb, fod=fod, box0=5, fod0=5 + nb + 2, cnt1=4, cnt2=5 + nb + 1))
    return dict(nf=nf, nd=nd, maxlev=maxlev, levels=out)


def _rw(path, f):
    with open(path) as fh:
        t = fh.read().split("\n")
    f(t)
    with open(path, "w") as fh:
        fh.write("\n".join(t))


def _fab_extent(d, off):
    """(header end, data end) of the FAB whose header starts at off in bytes d"""
    e = d.index(b"\n", off) + 1
    lo, hi, nc = refread.parse_fab_header(d[off:e])
    n = int(np.prod([h - a + 1 for a, h in zip(lo, hi)])) * nc * 8
    return e, e + n


class NotApplicable(Exception):
    pass


def apply(p, op):
    """Apply one edit; raises NotApplicable when the tree no longer has the site (after an earlier edit)."""
    try:
        return _apply(p, op)
    except NotApplicable:
        raise
    except Exception as e:
        raise NotApplicable(f"{op['kind']}: {type(e).__name__}: {e}")


def _apply(p, op):
    k = op["kind"]
    inf = tree_info(p)
    l = op["lv"] % (inf["maxlev"] + 1)
    lev = inf["levels"][l]
    if lev is None:
        raise NotApplicable("level header already deleted")
    nb = lev["nb"]
    b = op["box"] % nb
    fn, off = lev["fod"][b]
    fp = os.path.join(p, f"Level_{l}", fn)
    amt = op["amt"]
    nd = inf["nd"]
    dim = op.get("dim", 0) % nd
    ch = cellh_path(p, l)
    ib, io_ = lev["box0"] + b, lev["fod0"] + b
    site = dict(lv=l, box=b, file=fn)

    def rd():
        with open(fp, "rb") as f:
            return f.read()

    def wr(d):
        with open(fp, "wb") as f:
            f.write(d)

    if k == "del_file":
        os.remove(fp)
    elif k == "del_cellh":
        os.remove(ch)
    elif k == "truncate":
        os.truncate(fp, max(0, os.path.getsize(fp) - amt))
    elif k == "extend":
        with open(fp, "ab") as f:
            f.write(b"\0" * amt)
    elif k == "insert_boundary":
        d = rd()
        wr(d[:off] + b"\x01" * amt + d[off:])
    elif k == "pad_fix":
        # bytes inserted in front of this box's FAB *and* the recorded byte positions of this and all later boxes of the
        # file moved by the same amount: every entry still points at its FAB header, but the file is longer than the
        # boxes of the level header account for
        pad = {1: b"\0" * 8, 3: b"   ", 8: b"junk", 64: b"\n", 4096: b"# stray line\n"}.get(amt, b"\0" * 8)
        d = rd()
        wr(d[:off] + pad + d[off:])

        def f(t):
            for b2, (fn2, off2) in enumerate(lev["fod"]):
                if fn2 == fn and off2 >= off:
                    j = lev["fod0"] + b2
                    t[j] = " ".join(t[j].split()[:2] + [str(off2 + len(pad))])
        _rw(ch, f)
    elif k == "fab_long_header":
        # the text header of this box's FAB padded with hundreds of blanks / tabs before its line end (the line becomes
        # longer than any fixed read size one might assume), the recorded positions of the later boxes of the file moved
        # accordingly: the tree stays self-consistent
        d = rd()
        e = d.index(b"\n", off)
        pad = {1: b" " * 200, 3: b"\t" * 300, 8: b" \t" * 350, 64: b" " * 1100}.get(amt, b" " * 270)
        wr(d[:e] + pad + d[e:])

        def f(t):
            for b2, (fn2, off2) in enumerate(lev["fod"]):
                if fn2 == fn and off2 > off:
                    j = lev["fod0"] + b2
                    t[j] = " ".join(t[j].split()[:2] + [str(off2 + len(pad))])
        _rw(ch, f)
    elif k == "insert_data":
        d = rd()
        he, de = _fab_extent(d, off)
        pos = he + (amt * 7) % max(1, de - he)
        wr(d[:pos] + b"\x01" * amt + d[pos:])
    elif k == "remove_data":
        d = rd()
        he, de = _fab_extent(d, off)
        n = min(amt, de - he)
        pos = he + (amt * 5) % max(1, de - he - n + 1)
        wr(d[:pos] + d[pos + n:])
    elif k in ("fab_shape", "fab_shift", "fab_ncomp", "fab_prefix_text"):
        d = rd()
        e = d.index(b"\n", off)
        h = d[off:e]
        if k == "fab_ncomp":
            m = re.search(rb" (\d+)$", h)
            new = h[:m.start(1)] + str(int(m.group(1)) + (1 if op["side"] else -1 if int(m.group(1)) > 1 else 1)).encode()
        elif k == "fab_prefix_text":
            if off != 0:
                raise NotApplicable("only the first FAB of a file")
            new = h.replace(b"FAB ((8, (64 11 52 0 1 12 0 1023)),(8, (8 7 6 5 4 3 2 1)))",
                            [b"FAB ((8, (64 11 52 0 1 12 0 1023)),(8, (1 2 3 4 5 6 7 8)))",
                             b"FAB  ((8, (64 11 52 0 1 12 0 1023)),(8, (8 7 6 5 4 3 2 1)))",
                             b"FAB ((4, (32 8 23 0 1 9 0 127)),(4, (4 3 2 1)))",
                             # a byte that is not ASCII inside the real-number descriptor (same length)
                             b"FAB ((8, (64 11 52 0 1 12 0 1023)),(8, (8 7 6 5 4 3 2 \xe9)))"][{1: 0, 3: 1, 8: 2, 64: 3}.get(amt, 3)])
        else:
            m = re.search(rb"\(\((-?[\d,-]+)\) \((-?[\d,-]+)\) \(", h)
            lo = [int(x) for x in m.group(1).split(b",")]
            hi = [int(x) for x in m.group(2).split(b",")]
            hi[dim] += 1
            if k == "fab_shift":
                lo[dim] += 1
            new = (h[:m.start(1)] + ",".join(map(str, lo)).encode() + h[m.end(1):m.start(2)]
                   + ",".join(map(str, hi)).encode() + h[m.end(2):])
        wr(d[:off] + new + d[e:])
    elif k in ("cellh_shift", "cellh_reshape"):
        def f(t):
            m = refread._BOX.fullmatch(t[ib].strip())
            lo = refread._ints(m.group(1))
            hi = refread._ints(m.group(2))
            hi[dim] += 1
            if k == "cellh_shift":
                lo[dim] += 1
            t[ib] = f"(({','.join(map(str, lo))}) ({','.join(map(str, hi))}) ({m.group(3)}))"
        _rw(ch, f)
    elif k in ("cellh_delbox", "cellh_delbox_fix"):
        def f(t):
            if k.endswith("fix"):
                t[lev["cnt1"]] = f"({nb - 1} 0"
            del t[ib]
        _rw(ch, f)
    elif k in ("cellh_delfod", "cellh_delfod_fix"):
        def f(t):
            if k.endswith("fix"):
                t[lev["cnt2"]] = str(nb - 1)
            del t[io_]
        _rw(ch, f)
    elif k == "del_both_fix":
        if nb < 2:
            raise NotApplicable("needs two boxes")

        def f(t):
            t[lev["cnt1"]] = f"({nb - 1} 0"
            t[lev["cnt2"]] = str(nb - 1)
            del t[io_]
            del t[ib]
        _rw(ch, f)
    elif k == "cellh_garble_box":
        _rw(ch, lambda t: t.__setitem__(ib, t[ib].replace(",", ";", 1) if amt % 2 else t[ib].replace("(", "(x", 2)))
    elif k == "cellh_garble_tokens":
        _rw(ch, lambda t: t.__setitem__(ib, " ".join(t[ib].split()[:2]) if amt % 2 else t[ib] + " (0)"))
    elif k == "fod_garble_offset":
        _rw(ch, lambda t: t.__setitem__(io_, " ".join(t[io_].split()[:2] + [["0x10", "1e3", "12a", "--"][amt % 4]])))
    elif k == "fod_garble_tokens":
        _rw(ch, lambda t: t.__setitem__(io_, " ".join(t[io_].split()[:2]) if amt % 2 else t[io_] + " 0"))
    elif k == "fod_nofile":
        _rw(ch, lambda t: t.__setitem__(io_, t[io_].replace("Cell_D_", "Cell_X_")))
    elif k in ("fod_other", "fod_other_samebox", "swap_fod_only"):
        if nb < 2:
            raise NotApplicable("needs two boxes")
        c = (b + 1 + amt) % nb
        if c == b:
            c = (b + 1) % nb
        if k == "swap_fod_only":
            def f(t):
                t[io_], t[lev["fod0"] + c] = t[lev["fod0"] + c], t[io_]
            _rw(ch, f)
        else:
            _rw(ch, lambda t: t.__setitem__(io_, t[lev["fod0"] + c]))
    elif k == "fod_data":
        d = rd()
        he, de = _fab_extent(d, off)
        pos = he + (amt * 3) % max(1, de - he)
        _rw(ch, lambda t: t.__setitem__(io_, " ".join(t[io_].split()[:2] + [str(pos)])))
    elif k == "fod_eof":
        _rw(ch, lambda t: t.__setitem__(io_, " ".join(t[io_].split()[:2] + [str(os.path.getsize(fp) + amt - 1)])))
    elif k == "fod_negative":
        _rw(ch, lambda t: t.__setitem__(io_, " ".join(t[io_].split()[:2] + [str(-amt)])))
    elif k == "off_prefix":
        _rw(ch, lambda t: t.__setitem__(io_, " ".join(t[io_].split()[:2] + [str(off + 1 + amt % 56)])))
    elif k == "ws_cellh":
        def f(t):
            if amt % 3 == 0:
                t[ib] = t[ib].replace(") (", ")  (") + "  "
            elif amt % 3 == 1:
                t[io_] = t[io_].replace(" ", "   ") + " "
            else:
                t[ib] = "  " + t[ib]
        _rw(ch, f)
    elif k == "ws_header":
        def f(t):
            i = 2 + inf["nf"] + 3 + (amt % 2)      # geo_lo / geo_hi lines
            t[i] = "  " + t[i].replace(" ", "   ")
        _rw(os.path.join(p, "Header"), f)
    elif k == "fab_ncomp_consistent":
        # the last FAB of the file announces one component less AND its data is cut accordingly: the file is
        # self-consistent byte-wise but disagrees with the plotfile's field count
        d = rd()
        fabs, tiles = scan_file(fp)
        if not tiles or not fabs or fabs[-1]["nc"] < 2:
            raise NotApplicable("needs a tiling file whose last FAB has >= 2 components")
        fb = fabs[-1]
        ncell = (fb["end"] - fb["hend"]) // (8 * fb["nc"])
        h = d[fb["start"]:fb["hend"]]
        new = re.sub(rb" (\d+)\n$", lambda m: b" " + str(fb["nc"] - 1).encode() + b"\n", h)
        wr(d[:fb["start"]] + new + d[fb["hend"]:fb["end"] - 8 * ncell])
    elif k == "nfields_plus":
        # the plotfile consistently announces one field more than the FABs hold (Header and every level header)
        def fh(t):
            t[1] = str(inf["nf"] + 1)
            t.insert(2 + inf["nf"], "extra_field")
        _rw(os.path.join(p, "Header"), fh)
        for ll in range(inf["maxlev"] + 1):
            if inf["levels"][ll] is None:
                continue

            def fc(t, ll=ll):
                t[2] = str(inf["nf"] + 1)
                nbl = inf["levels"][ll]["nb"]
                for i in range(len(t)):
                    if t[i] == f"{nbl},{inf['nf']}":
                        t[i] = f"{nbl},{inf['nf'] + 1}"
                    elif i > inf["levels"][ll]["fod0"] + nbl and t[i].endswith(",") and t[i].count(",") == inf["nf"]:
                        t[i] = t[i] + "0.0000000000000000e+00,"
            _rw(cellh_path(p, ll), fc)
    elif k == "fod_path":
        # the recorded file name spelled with a redundant path component
        _rw(ch, lambda t: t.__setitem__(io_, t[io_].replace("Cell_D_", ["./Cell_D_", f"../Level_{l}/Cell_D_", ".//Cell_D_"][amt % 3], 1)))
    elif k == "level_time":
        def f(t):
            i = 2 + inf["nf"] + 8 + (inf["maxlev"] + 1) + 2
            for ll in range(l):
                i += 2 + int(t[i].split()[1]) * nd + 1
            toks = t[i].split()
            toks[2] = ["0.0", "1e300", "-7.5", "nan"][amt % 4]
            t[i] = " ".join(toks)
        _rw(os.path.join(p, "Header"), f)
    elif k == "swap_pairs":
        if nb < 2:
            raise NotApplicable("needs two boxes")
        c = (b + 1 + amt) % nb
        if c == b:
            c = (b + 1) % nb

        def f(t):
            t[ib], t[lev["box0"] + c] = t[lev["box0"] + c], t[ib]
            t[io_], t[lev["fod0"] + c] = t[lev["fod0"] + c], t[io_]
        _rw(ch, f)
    elif k == "minmax_edit":
        def f(t):
            i = lev["fod0"] + nb + 2 + b
            toks = t[i].split(",")
            toks[0] = ["1.0e+00", "nan", "-inf", "7.5e+300"][amt % 4]
            t[i] = ",".join(toks)
        _rw(ch, f)
    elif k == "payload_flip":
        d = bytearray(rd())
        he, de = _fab_extent(bytes(d), off)
        pos = he + (amt * 11) % max(1, de - he)
        d[pos] ^= 0x55
        wr(bytes(d))
    elif k == "bounds_shift":
        def f(t):
            # locate the level block: after the two "0" lines
            i = 2 + inf["nf"] + 8 + (inf["maxlev"] + 1) + 2
            for ll in range(l):
                nbl = int(t[i].split()[1])
                i += 2 + nbl * nd + 1
            i += 2 + b * nd + dim
            a, c = [float(x) for x in t[i].split()]
            w = (c - a)
            ncell = max(1, op["amt"] % 7)
            # a full cell or more of the level: width / cells_in_box * k  (cells_in_box unknown here: use the whole width)
            if op["side"]:
                c = c + w * ncell
            else:
                a = a - w * ncell
            t[i] = f"{a!r} {c!r}"
        _rw(os.path.join(p, "Header"), f)
    elif k == "bounds_nonfinite":
        # one physical bound of a box replaced by text that parses to a non-finite number
        def f(t):
            i = 2 + inf["nf"] + 8 + (inf["maxlev"] + 1) + 2
            for ll in range(l):
                nbl = int(t[i].split()[1])
                i += 2 + nbl * nd + 1
            i += 2 + b * nd + dim
            toks = t[i].split()
            toks[1 if op["side"] else 0] = ["nan", "inf", "-inf", "1e999", "NaN"][op["amt"] % 5]
            t[i] = " ".join(toks)
        _rw(os.path.join(p, "Header"), f)
    else:
        raise ValueError(k)
    return site


# --------------------------------------------------------------------------- reference validator

def scan_file(path):
    """Sequential structural scan of a binary file.  -> (fabs, ok): fabs = [dict(start, hend, end, lo, hi, nc)],
    ok = the FABs tile the file exactly from byte 0 to EOF."""
    with open(path, "rb") as f:
        d = f.read()
    fabs = []
    pos = 0
    while pos < len(d):
        e = d.find(b"\n", pos)
        if e < 0 or not d.startswith(b"FAB", pos):
            return fabs, False
        p = refread.parse_fab_header(d[pos:e + 1])
        if p is None:
            return fabs, False
        lo, hi, nc = p
        if len(lo) != len(hi) or any(h < a for a, h in zip(lo, hi)) or nc < 0:
            return fabs, False
        n = int(np.prod([h - a + 1 for a, h in zip(lo, hi)])) * nc * 8
        end = e + 1 + n
        if end > len(d):
            return fabs, False
        # where the index part of the header starts: an offset before it still lets a tolerant parser read the header
        tail = d.rfind(b"((", pos, e)
        fabs.append(dict(start=pos, tail=tail, hend=e + 1, end=end, lo=lo, hi=hi, nc=nc))
        pos = end
    return fabs, pos == len(d)


def validate(path, limit=None, coords=False):
    """-> list of (class, detail) inconsistencies within levels 0..limit (empty = structurally consistent)."""
    bad = []
    try:
        hdr = refread.read_header(path)
    except Exception as e:
        return [("header", f"unparsable: {type(e).__name__} {e}")]
    nf = len(hdr["fields"])
    nd = hdr["ndims"]
    lim = hdr["max_level"] if limit is None else limit
    for l in range(lim + 1):
        ld = os.path.join(path, hdr["levels"][l]["cellpath"].split("/")[0])
        try:
            ch = refread.read_cell_h(os.path.join(ld, "Cell_H"))
        except Exception as e:
            bad.append(("level-header", (l, f"{type(e).__name__}: {str(e)[:80]}")))
            continue
        if ch["nf"] != nf:
            bad.append(("level-header", (l, "field count")))
        if len(ch["idx"]) != hdr["levels"][l]["nboxes"]:
            bad.append(("level-header", (l, f"{len(ch['idx'])} boxes, Header announces {hdr['levels'][l]['nboxes']}")))
        if any(len(lo) != nd or len(hi) != nd for lo, hi in ch["idx"]):
            bad.append(("level-header", (l, "index range dimensionality")))
            continue
        byfile = collections.defaultdict(list)
        for b, (fn, off) in enumerate(ch["fod"]):
            byfile[fn].append((off, b))
        for fn, lst in sorted(byfile.items()):
            fp = os.path.join(ld, fn)
            if not os.path.isfile(fp):
                bad.append(("missing-file", (l, fn)))
                continue
            fabs, tiles = scan_file(fp)
            if not tiles:
                bad.append(("layout", (l, fn, "FABs do not tile the file")))
            used = collections.Counter()
            for off, b in lst:
                hit = [i for i, fb in enumerate(fabs) if fb["start"] <= off <= max(fb["start"], fb["tail"] - 1)]
                if not hit:
                    bad.append(("level-header", (l, b, f"no FAB header readable at {fn}@{off}")))
                    continue
                fb = fabs[hit[0]]
                used[hit[0]] += 1
                if (fb["lo"], fb["hi"]) != ch["idx"][b]:
                    bad.append(("index-range", (l, b, f"FAB names {fb['lo']}..{fb['hi']}, level header {ch['idx'][b]}")))
                if fb["nc"] != nf:
                    bad.append(("layout", (l, b, f"FAB has {fb['nc']} components, expected {nf}")))
            if tiles and (len(used) != len(fabs) or any(c != 1 for c in used.values())):
                bad.append(("layout", (l, fn, "FABs of the file are not referenced exactly once each")))
        if coords:
            for b, (lo, hi) in enumerate(ch["idx"]):
                if b >= len(hdr["levels"][l]["phys"]):
                    break
                for d in range(nd):
                    dx = hdr["dx"][l][d]
                    ea = hdr["geo_lo"][d] + lo[d] * dx
                    ec = hdr["geo_lo"][d] + (hi[d] + 1) * dx
                    a, c = hdr["levels"][l]["phys"][b][d]
                    if not (abs(a - ea) <= 0.5 * dx and abs(c - ec) <= 0.5 * dx):       # (a NaN bound contradicts too)
                        bad.append(("coordinates", (l, b, d)))
    return bad
