"""Independent reference reader / structural validator for plotfiles (no amr_kitchen import).

Token/regex based; it does not share the tools' parsing assumptions.  See DESIGN.md 2.4.
"""
import os
import re

import numpy as np

_BOX = re.compile(r"\(\(\s*(-?\d+(?:\s*,\s*-?\d+)*)\s*\)\s*\(\s*(-?\d+(?:\s*,\s*-?\d+)*)\s*\)\s*\(\s*(-?\d+(?:\s*,\s*-?\d+)*)\s*\)\)")
_FABTAIL = re.compile(rb"\(\((-?\d+(?:,-?\d+)*)\) \((-?\d+(?:,-?\d+)*)\) \((-?\d+(?:,-?\d+)*)\)\) (\d+)[ \t]*\n$")


class RefError(Exception):
    pass


def _ints(s):
    return [int(x) for x in s.replace(" ", "").split(",")]


def read_header(path):
    out = {}
    with open(os.path.join(path, "Header")) as h:
        lines = h.read().split("\n")
    i = 0
    out["version"] = lines[i]; i += 1
    nf = int(lines[i]); i += 1
    out["fields"] = lines[i:i + nf]; i += nf
    nd = int(lines[i]); i += 1
    out["ndims"] = nd
    out["time_text"] = lines[i].strip()
    out["time"] = float(lines[i]); i += 1
    L = int(lines[i]); i += 1
    out["max_level"] = L
    out["geo_lo"] = [float(x) for x in lines[i].split()]; i += 1
    out["geo_hi"] = [float(x) for x in lines[i].split()]; i += 1
    out["factors"] = lines[i].split(); i += 1
    doms = _BOX.findall(lines[i]); i += 1
    out["grid_sizes"] = [[hi - lo + 1 for lo, hi in zip(_ints(d[0]), _ints(d[1]))] for d in doms]
    out["steps"] = lines[i].split(); i += 1
    out["dx"] = []
    for l in range(L + 1):
        out["dx"].append([float(x) for x in lines[i].split()]); i += 1
    out["coord_sys"] = lines[i]; i += 1
    out["zero"] = lines[i]; i += 1
    out["levels"] = []
    for l in range(L + 1):
        toks = lines[i].split(); i += 1
        if len(toks) != 3:
            raise RefError(f"Header level line {l}: {lines[i-1]!r}")
        nb = int(toks[1])
        lvl_time = float(toks[2])
        step = lines[i]; i += 1
        pb = []
        for b in range(nb):
            bb = []
            for d in range(nd):
                bb.append([float(x) for x in lines[i].split()]); i += 1
            pb.append(bb)
        cellpath = lines[i]; i += 1
        out["levels"].append(dict(level=int(toks[0]), nboxes=nb, time=lvl_time, step=step, phys=pb,
                                  cellpath=cellpath))
    return out


def read_cell_h(path):
    """-> dict(nf, idx=[(lo, hi)], fod=[(name, offset)], mins, maxs)"""
    with open(path) as c:
        cl = c.read().split("\n")
    j = 2
    nf = int(cl[j]); j += 2
    nb = int(cl[j].split()[0].lstrip("(")); j += 1
    idx = []
    for b in range(nb):
        # tolerant on purpose: an entry is "parsable" when its first two tokens are integer vectors; what follows
        # (the cell-type token) is not needed to locate the box, so damage confined to it is not an inconsistency
        toks = cl[j].split()
        try:
            lo = [int(x) for x in toks[0].replace("(", "").replace(")", "").split(",")]
            hi = [int(x) for x in toks[1].replace("(", "").replace(")", "").split(",")]
        except (IndexError, ValueError):
            raise RefError(f"{path}: bad box line {cl[j]!r}")
        idx.append((lo, hi)); j += 1
    if cl[j].strip() != ")":
        raise RefError(f"{path}: expected ')' got {cl[j]!r}")
    j += 1
    if int(cl[j]) != nb:
        raise RefError(f"{path}: FabOnDisk count {cl[j]!r} != {nb}")
    j += 1
    fod = []
    for b in range(nb):
        toks = cl[j].split(); j += 1
        if len(toks) != 3 or toks[0] != "FabOnDisk:":
            raise RefError(f"{path}: bad FabOnDisk line {cl[j-1]!r}")
        fod.append((toks[1], int(toks[2])))
    out = dict(nf=nf, idx=idx, fod=fod, mins=None, maxs=None)
    try:
        while j < len(cl) and cl[j].strip() == "":
            j += 1
        n1, n2 = cl[j].split(","); j += 1
        mins = []
        for b in range(int(n1)):
            mins.append([float(x) for x in cl[j].split(",")[:-1]]); j += 1
        while j < len(cl) and cl[j].strip() == "":
            j += 1
        n1, n2 = cl[j].split(","); j += 1
        maxs = []
        for b in range(int(n1)):
            maxs.append([float(x) for x in cl[j].split(",")[:-1]]); j += 1
        out["mins"], out["maxs"] = mins, maxs
    except (IndexError, ValueError):
        pass
    return out


def parse_fab_header(line):
    """line: bytes incl. newline.  -> (lo, hi, ncomp) or None"""
    m = _FABTAIL.search(line)
    if not m or not line.startswith(b"FAB"):
        return None
    return _ints(m.group(1).decode()), _ints(m.group(2).decode()), int(m.group(4))


def read_fab(path, offset, nd):
    with open(path, "rb") as bf:
        bf.seek(offset)
        hl = bf.readline()
        p = parse_fab_header(hl)
        if p is None:
            raise RefError(f"{path}@{offset}: cannot parse FAB header {hl[:120]!r}")
        lo, hi, n = p
        shp = [hi[d] - lo[d] + 1 for d in range(nd)] + [n]
        cnt = int(np.prod(shp))
        raw = bf.read(cnt * 8)
        if len(raw) != cnt * 8:
            raise RefError(f"{path}@{offset}: short FAB data ({len(raw)} of {cnt*8} bytes)")
    return lo, hi, np.frombuffer(raw, "<f8").reshape(shp, order="F")


def read_plotfile(path, data=True, limit=None):
    """Full independent read.  Raises RefError / ValueError / OSError when something is inconsistent."""
    out = read_header(path)
    nd = out["ndims"]
    nf = len(out["fields"])
    L = out["max_level"] if limit is None else limit
    for l in range(L + 1):
        lev = out["levels"][l]
        ld = os.path.join(path, lev["cellpath"].split("/")[0])
        ch = read_cell_h(os.path.join(ld, "Cell_H"))
        if ch["nf"] != nf:
            raise RefError(f"level {l}: Cell_H field count {ch['nf']} != {nf}")
        if len(ch["idx"]) != lev["nboxes"]:
            raise RefError(f"level {l}: Cell_H has {len(ch['idx'])} boxes, Header {lev['nboxes']}")
        lev.update(idx=ch["idx"], fod=ch["fod"], mins=ch["mins"], maxs=ch["maxs"], dir=ld)
        if data:
            arrs = []
            for b, (fn, off) in enumerate(ch["fod"]):
                lo, hi, arr = read_fab(os.path.join(ld, fn), off, nd)
                if (lo, hi) != ch["idx"][b]:
                    raise RefError(f"level {l} box {b}: FAB header range {(lo, hi)} != Cell_H {ch['idx'][b]}")
                if arr.shape[-1] != nf:
                    raise RefError(f"level {l} box {b}: FAB has {arr.shape[-1]} components, expected {nf}")
                arrs.append(arr)
            lev["data"] = arrs
    out["levels"] = out["levels"][:L + 1]
    return out


def bits(a):
    return np.ascontiguousarray(a, dtype="<f8").view("<u8")


def same_bits(a, b):
    a = np.asarray(a)
    b = np.asarray(b)
    return a.shape == b.shape and a.dtype == b.dtype and np.array_equal(bits(a), bits(b))


def same_values(a, b):
    """Bit-identical except that any NaN equals any NaN.  For *computed* values: which NaN payload / sign an arithmetic
    operation on two NaNs propagates depends on operand order and on the loop numpy picks for the array layout, so the
    bits of a computed NaN are not a function of the stored data."""
    a = np.asarray(a)
    b = np.asarray(b)
    if a.shape != b.shape or a.dtype != b.dtype:
        return False
    return bool(np.all((bits(a) == bits(b)) | (np.isnan(a) & np.isnan(b))))


def float_rows_equal(a, b):
    """NaN-aware equality of two sequences of floats."""
    a = np.asarray(a, dtype=float)
    b = np.asarray(b, dtype=float)
    return a.shape == b.shape and bool(np.all((a == b) | (np.isnan(a) & np.isnan(b))))


def covering_from_ref(ref, L, fi=None):
    from .plotgen import covering_grid
    nd = ref["ndims"]
    per = []
    for l in range(L + 1):
        lev = ref["levels"][l]
        per.append([(lo, hi, lev["data"][b] if fi is None else lev["data"][b][..., fi])
                    for b, (lo, hi) in enumerate(lev["idx"])])
    return covering_grid(nd, ref["grid_sizes"][L], L, per)


def compare_mesh(a, b, L=None, tol=0.0):
    """Compare time/geometry/boxes of two reference reads over levels 0..L.  -> list of messages"""
    v = []
    L = min(a["max_level"], b["max_level"]) if L is None else L
    for k in ("ndims", "time", "geo_lo", "geo_hi"):
        if a[k] != b[k]:
            v.append(f"{k}: {a[k]!r} != {b[k]!r}")
    for l in range(L + 1):
        if a["dx"][l] != b["dx"][l]:
            v.append(f"dx[{l}]: {a['dx'][l]} != {b['dx'][l]}")
        if a["grid_sizes"][l] != b["grid_sizes"][l]:
            v.append(f"grid_sizes[{l}] differ")
        A, B = a["levels"][l], b["levels"][l]
        if A["idx"] != B["idx"]:
            v.append(f"level {l}: index ranges differ {A['idx'][:3]} vs {B['idx'][:3]}")
        if A["phys"] != B["phys"]:
            v.append(f"level {l}: physical box bounds differ")
        if A["time"] != B["time"]:
            v.append(f"level {l}: level time {A['time']} != {B['time']}")
    return v
