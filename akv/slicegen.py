"""Shared pieces of the mandoline 3D checks (C07, C16): analytic payload, constructed positions, reference."""
import numpy as np
from hypothesis import strategies as st

from . import plotgen

FIELDS = ["A", "K", "T", "R"]
SAFE_FRACS = [0.2, 0.3, 0.45, 0.55, 0.7, 0.8]      # >= 0.05 cell away from every dyadic point k/8 (snap band, DESIGN C07)
GAP_FRACS = [0.2, 0.3]


def _payload_slice3d(plot, l, lo, hi):
    """A = alpha + beta * normal-coordinate of the cell centre; K = in-plane pattern of the level-0 parent cell
    (constant along the normal, identical on every level); T = level-tagged coded payload; R = random."""
    pp = plot.payload
    cn = pp["cn"]
    nd = plot.ndims
    idx = plotgen._index_grids(lo, hi)
    c = plot.geo_lo[cn] + (idx[cn] + 0.5) * plot.dx[l][cn]
    A = pp["alpha"] + pp["beta"] * c
    cx, cy = [d for d in range(nd) if d != cn]
    K = k_values(idx[cx] >> l, idx[cy] >> l, pp.get("k_inf"))
    T = plotgen.coded_block(l, lo, hi, 1)[..., 0]
    R = plotgen._payload_random(plot, l, lo, hi) * float(pp.get("amp", 1.0))       # one random column per field position
    if pp.get("r_specials"):
        # the random field holds a few +-inf, +-1e300 and denormal samples (an infinite sample next to a finite one must
        # give that infinity, not NaN).  Values within a factor ~1e5 of the largest double are not used: any formula
        # overflows somewhere up there and the statement does not say where.  NaN is not used either (the reference
        # marks "no data" with it)
        rs = np.random.Generator(np.random.PCG64([int(pp["r_specials"]), l] + [int(x) & 0xFFFFFFFF for x in lo]))
        pick = rs.random(R.shape) < 0.06
        vals = np.array([np.inf, -np.inf, 1e300, -1e300, 5e-324, np.inf, -1e300])[rs.integers(0, 7, size=R.shape)]
        R = np.where(pick, vals, R)
    cols = dict(A=A, K=K, T=T)
    return np.stack([cols[f] if f in cols else R[..., i] for i, f in enumerate(plot.fields)], axis=-1)


plotgen.PAYLOADS["slice3d"] = _payload_slice3d


@st.composite
def slice_specs(draw, tier="quick", min_levels=1, max_cells=4000):
    spec = draw(plotgen.plot_specs(thin=True, level_prefix=True, ndims=3, min_levels=min_levels, max_levels=3, max_cells=max_cells, fields=list(FIELDS),
                                   payload_kinds=("coded",)))
    m = spec["mesh"]
    m["nb0"] = [max(n, 2) if m["bf"] * n < 4 else n for n in m["nb0"]]       # >= 4 cells per direction
    cn = draw(st.integers(0, 2))
    if m["nlev"] >= 2 and not m.get("full") and draw(st.integers(0, 2 ** 16)) % 8 == 0:
        # a refined slab: level 1 spans the whole cross-section normal to the slice but only part of the normal extent
        nbl = [n * 2 for n in m["nb0"]]
        a = draw(st.integers(0, nbl[cn] - 1))
        sz = draw(st.integers(1, max(1, min(3, nbl[cn] - a - (1 if a == 0 else 0)))))
        m["rects"][0] = [[[a if d == cn else 0 for d in range(3)], [sz if d == cn else nbl[d] for d in range(3)]]]
        m["slab"] = True
    # amplitude of the affine and of the random field: ordinary, trace-species small (an absolute tolerance of 1e-8 would
    # swallow them) or large
    amp = [1.0, 1.0, 1e-10, 1e-14, 1e9, 1.0][draw(st.integers(0, 2 ** 16)) % 6]
    spec["payload"] = dict(kind="slice3d", cn=cn, seed=draw(st.integers(0, 999)),
                           alpha=draw(st.sampled_from([3.0, -1.25, 0.0, 100.0])) * amp,
                           beta=draw(st.sampled_from([2.0, -0.5, 10.0, 1.0])) * amp, amp=amp)
    if draw(st.integers(0, 2 ** 16)) % 3 == 0:
        spec["payload"]["r_specials"] = draw(st.integers(1, 2 ** 16))
    if draw(st.integers(0, 2 ** 16)) % 4 == 0:
        spec["payload"]["k_inf"] = draw(st.integers(1, 10))
    return spec


@st.composite
def positions(draw, nlev):
    classes = ["frac", "centre", "face", "boxface", "gap", "gap", "gap", "boxface", "first_half", "last_half",
               "domain_lo", "domain_hi", "default", "outside", "frac", "gap"]
    cls = classes[draw(st.integers(0, 2 ** 16)) % len(classes)]     # wide draw: classes stay balanced
    return dict(cls=cls, level=draw(st.integers(0, nlev - 1)), index=draw(st.integers(0, 400)),
                frac=draw(st.sampled_from(SAFE_FRACS)), gap=draw(st.sampled_from(GAP_FRACS)),
                side=draw(st.integers(0, 1)), box=draw(st.integers(0, 60)))


def resolve_position(plot, cn, pos, L):
    """-> (p or None for the default, description).  All positions are constructed from the geometry so that they
    are either exactly on a cell centre of some level or >= 0.05 cells away from every cell centre of every level."""
    cls = pos["cls"]
    k = min(pos["level"], L)
    lo, hi = plot.geo_lo[cn], plot.geo_hi[cn]
    dx = plot.dx[k][cn]
    n = plot.grid_size(k)[cn]
    if cls == "default":
        return None, cls
    if cls == "outside":
        w = hi - lo
        return (lo - w * [0.001, 0.5, 7.0][pos["index"] % 3]) if pos["side"] == 0 else (hi + w * [0.001, 0.5, 7.0][pos["index"] % 3]), cls
    if cls == "domain_lo":
        return lo, cls
    if cls == "domain_hi":
        return hi, cls
    if cls == "centre":
        return lo + (pos["index"] % n + 0.5) * dx, cls
    if cls == "face":
        if n < 2:
            return lo + 0.5 * dx, "centre"
        return lo + (1 + pos["index"] % (n - 1)) * dx, cls
    if cls == "frac":
        if n < 2:
            return lo + 0.5 * dx, "centre"
        return lo + (pos["index"] % (n - 1) + 0.5 + pos["frac"]) * dx, cls
    if cls == "first_half":
        return lo + pos["gap"] * dx, cls
    if cls == "last_half":
        return hi - pos["gap"] * dx, cls
    # interior box faces of level k (faces of boxes that are not domain faces)
    boxes = plot.levels[k]["boxes"]
    faces = sorted(set(f for blo, bhi in boxes for f in (blo[cn], bhi[cn] + 1) if f not in (0, n)))
    if not faces:
        if n < 2:
            return lo + 0.5 * dx, "centre"
        return lo + (pos["index"] % (n - 1) + 0.5 + pos["frac"]) * dx, "frac"
    face_idx = faces[pos["box"] % len(faces)]
    face = lo + face_idx * dx
    if cls == "boxface":
        return face, cls
    # gap: inside the half cell on either side of the face
    p = face + (pos["gap"] if pos["index"] % 2 else -pos["gap"]) * dx
    if p < lo or p > hi:
        p = face - (pos["gap"] if pos["index"] % 2 else -pos["gap"]) * dx
    return p, cls


def reference(plot, cn, p, L):
    """Per pixel of the level-L in-plane grid (axes cx, cy):
      lstar   finest level <= L with a box containing p (closed) at that pixel
      strict  True where the statement leaves no freedom: the lstar box holds both bracketing centres (or the plane
              is on a centre, or beyond the outermost centre of a box touching the domain face) and no finer box lies
              within half a cell of p there
      weights for strict pixels: (k0, k1, w0, w1) index of the bracketing cells at level lstar and their weights
      allowed bitmask of levels having a box at the pixel whose normal extent widened by half a cell contains p
    """
    cx, cy = [d for d in range(3) if d != cn]
    gs = plot.grid_size(L)
    shape = (gs[cx], gs[cy])
    lstar = np.full(shape, -1)
    strict = np.zeros(shape, bool)
    near_finer = np.zeros(shape, bool)
    allowed = np.zeros(shape, int)
    k0a = np.zeros(shape, int)
    k1a = np.zeros(shape, int)
    w1a = np.zeros(shape, float)
    lo_n = plot.geo_lo[cn]
    for l in range(L + 1):
        f = 2 ** (L - l)
        dx = plot.dx[l][cn]
        n = plot.grid_size(l)[cn]
        tol = 1e-9 * dx
        for blo, bhi in plot.levels[l]["boxes"]:
            plo = lo_n + blo[cn] * dx
            phi = lo_n + (bhi[cn] + 1) * dx
            sl = (slice(blo[cx] * f, (bhi[cx] + 1) * f), slice(blo[cy] * f, (bhi[cy] + 1) * f))
            if plo - dx / 2 - tol <= p <= phi + dx / 2 + tol:
                allowed[sl] |= (1 << l)
            if not (plo - tol <= p <= phi + tol):
                if plo - dx / 2 - tol <= p <= phi + dx / 2 + tol:
                    near_finer[sl] = True       # a box of this level within half a cell: finer than whatever lstar was
                continue
            kk = (p - lo_n) / dx - 0.5          # fractional cell index of the plane at this level
            k = int(np.floor(kk + 1e-9))
            if abs(kk - round(kk)) <= 1e-9:
                k0 = k1 = int(round(kk))
                w1 = 0.0
            else:
                k0, k1 = k, k + 1
                w1 = kk - k
            if k1 <= 0 and blo[cn] == 0:        # before the first centre of the domain
                k0 = k1 = 0
                w1 = 0.0
            if k0 >= n - 1 and bhi[cn] == n - 1 and k0 == n - 1:   # after the last centre of the domain
                k0 = k1 = n - 1
                w1 = 0.0
            ok = blo[cn] <= k0 and k1 <= bhi[cn]
            lstar[sl] = l
            strict[sl] = ok
            near_finer[sl] = False
            k0a[sl] = k0
            k1a[sl] = k1
            w1a[sl] = w1
    return dict(lstar=lstar, strict=strict & ~near_finer & (lstar >= 0), allowed=allowed, k0=k0a, k1=k1a, w1=w1a)


def reference_values(plot, cn, L, ref, fi, with_scale=False):
    """Interpolated value of field fi at the strict pixels (NaN elsewhere); with_scale also returns the larger
    magnitude of the two bracketing samples (the conditioning of the interpolation) and the on-a-centre mask."""
    cx, cy = [d for d in range(3) if d != cn]
    gs = plot.grid_size(L)
    out = np.full((gs[cx], gs[cy]), np.nan)
    scale = np.zeros((gs[cx], gs[cy]))
    on_centre = np.zeros((gs[cx], gs[cy]), bool)
    for l in range(L + 1):
        f = 2 ** (L - l)
        for b, (blo, bhi) in enumerate(plot.levels[l]["boxes"]):
            sl = (slice(blo[cx] * f, (bhi[cx] + 1) * f), slice(blo[cy] * f, (bhi[cy] + 1) * f))
            m = (ref["lstar"][sl] == l) & ref["strict"][sl]
            if not m.any():
                continue
            k0 = int(ref["k0"][sl][m][0])
            k1 = int(ref["k1"][sl][m][0])
            w1 = float(ref["w1"][sl][m][0])
            if not (blo[cn] <= k0 and k1 <= bhi[cn]):
                continue        # another box of the same level owns these pixels
            a = np.transpose(plot.box_data(l, b)[..., fi], [cx, cy, cn])
            with np.errstate(all="ignore"):
                v = a[:, :, k0 - blo[cn]] * (1.0 - w1) + a[:, :, k1 - blo[cn]] * w1 if k0 != k1 else a[:, :, k0 - blo[cn]]
            sc = np.maximum(np.abs(a[:, :, k0 - blo[cn]]), np.abs(a[:, :, k1 - blo[cn]]))
            for ax in range(2):
                v = np.repeat(v, f, axis=ax)
                sc = np.repeat(sc, f, axis=ax)
            cur = out[sl]
            cur[m] = v[m]
            out[sl] = cur
            cur = scale[sl]
            cur[m] = sc[m]
            scale[sl] = cur
            if k0 == k1:
                cur = on_centre[sl]
                cur[m] = True
                on_centre[sl] = cur
    if with_scale:
        return out, scale, on_centre
    return out


def k_values(i0, j0, k_inf=None):
    """K as a function of the level-0 in-plane indices; with k_inf some columns hold +inf / -inf (a field constant along
    the normal must come back with exactly those infinities: no arithmetic may turn them into NaN)"""
    K = 1000.0 + 37.0 * i0 + 0.5 * j0
    if k_inf:
        h = (i0 * 7 + j0 * 3 + int(k_inf)) % 11
        K = np.where(h == 0, np.inf, np.where(h == 1, -np.inf, K))
    return K


def k_pattern(l, lo2, hi2, k_inf=None):
    """K on the in-plane footprint lo2..hi2 (level-l indices along cx, cy)"""
    i, j = np.meshgrid(np.arange(lo2[0], hi2[0] + 1), np.arange(lo2[1], hi2[1] + 1), indexing="ij")
    return k_values(i >> l, j >> l, k_inf)


def level_samples(plot, cn, l, k, fi):
    """Stored level-l samples of field fi at normal cell index k over the level-l in-plane grid (NaN = no box)."""
    cx, cy = [d for d in range(3) if d != cn]
    gs = plot.grid_size(l)
    out = np.full((gs[cx], gs[cy]), np.nan)
    if k < 0 or k >= gs[cn]:
        return out
    for b, (blo, bhi) in enumerate(plot.levels[l]["boxes"]):
        if blo[cn] <= k <= bhi[cn]:
            a = np.transpose(plot.box_data(l, b)[..., fi], [cx, cy, cn])
            out[blo[cx]:bhi[cx] + 1, blo[cy]:bhi[cy] + 1] = a[:, :, k - blo[cn]]
    return out


def level_bracket(plot, cn, p, l):
    """(k0, k1, w1) of the level-l cell centres bracketing p (k0 == k1 when p is on a centre)."""
    dx = plot.dx[l][cn]
    kk = (p - plot.geo_lo[cn]) / dx - 0.5
    if abs(kk - round(kk)) <= 1e-9:
        return int(round(kk)), int(round(kk)), 0.0
    k = int(np.floor(kk))
    return k, k + 1, kk - k


@st.composite
def big_slice_specs(draw):
    """3D inputs whose plotfile-format slice exceeds the 1 MB file-splitting threshold at level 0."""
    cn = draw(st.integers(0, 2))
    nb0 = [16, 16, 16]
    nb0[cn] = 1
    # 64 x 64 x nf x 8 bytes per level-0 slice: 1.08 MB (2 files) ... 6.5 MB (7 files)
    nf = [33, 62, 95, 125, 160, 200, 40, 65][draw(st.integers(0, 2 ** 16)) % 8]
    nlev = draw(st.integers(1, 2))
    rects = []
    if nlev == 2:
        lo = [draw(st.integers(0, 28)), draw(st.integers(0, 28)), draw(st.integers(0, 28))]
        lo[cn] = draw(st.integers(0, 1))
        sz = [draw(st.integers(1, 4)) for _ in range(3)]
        sz[cn] = 1
        rects = [[[lo, sz]]]
    mesh = dict(ndims=3, bf=4, m=draw(st.sampled_from([4, 6, 8, 5])), nb0=nb0, nlev=nlev, rects=rects, no_unit=False,
                chop_seed=draw(st.one_of(st.just(0), st.integers(1, 2 ** 16))), order_seed=draw(st.integers(0, 99)),
                layout=draw(plotgen.layouts()))
    geom = draw(plotgen.geom_specs(3))
    fields = list(FIELDS) + [f"R{i}" for i in range(nf - len(FIELDS))]
    return dict(mesh=mesh, geom=geom, fields=fields, time=draw(st.sampled_from(plotgen.TIMES)), step=7,
                payload=dict(kind="slice3d", cn=cn, seed=draw(st.integers(0, 999)), alpha=3.0, beta=2.0),
                style="amrex", extra_factors=0)
