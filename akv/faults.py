"""Write audit (sys.addaudithook) and fault injection at open-for-write / write calls (DESIGN.md 2.7).

Everything is harness side: no repository hook.  Tools run with the in-process schedule-owning pool, so worker
code executes in the audited process.
"""
import builtins
import errno
import io
import os
import sys

AUDIT = {"on": False, "events": []}
_EVENTS = ("os.mkdir", "os.rename", "os.remove", "os.rmdir", "shutil.rmtree", "os.truncate", "os.chmod", "os.symlink",
           "os.link", "shutil.copyfile", "shutil.copytree", "shutil.move", "os.utime", "shutil.copymode",
           "shutil.copystat", "os.chown")
_HOOKED = {"done": False}


def _hook(ev, args):
    if not AUDIT["on"]:
        return
    try:
        if ev == "open":
            path, mode, flags = args
            if isinstance(path, int):
                return
            if isinstance(mode, str) and any(c in mode for c in "wax+"):
                AUDIT["events"].append(("open-for-write", os.fsdecode(path)))
            elif mode is None and isinstance(flags, int) and flags & (os.O_WRONLY | os.O_RDWR | os.O_CREAT | os.O_TRUNC | os.O_APPEND):
                AUDIT["events"].append(("open-for-write", os.fsdecode(path)))
        elif ev in _EVENTS:
            path = os.fsdecode(args[0])
            # removals made relative to a directory descriptor (shutil.rmtree does that): name the real location
            dir_fd = {"os.remove": 1, "os.rmdir": 1, "os.mkdir": 2}.get(ev)
            if dir_fd is not None and len(args) > dir_fd and isinstance(args[dir_fd], int) and args[dir_fd] >= 0 and not os.path.isabs(path):
                try:
                    path = os.path.join(os.readlink(f"/proc/self/fd/{args[dir_fd]}"), path)
                except OSError:
                    pass
            AUDIT["events"].append((ev, path))
            if ev in ("os.rename", "os.link", "os.symlink", "shutil.copyfile", "shutil.copytree", "shutil.move") and len(args) > 1:
                AUDIT["events"].append((ev + ":dst", os.fsdecode(args[1])))
    except Exception:
        pass


def install_audit():
    if not _HOOKED["done"]:
        sys.addaudithook(_hook)
        _HOOKED["done"] = True


class audit:
    """with audit() as events: ...   -> list of (event, path as given, cwd at the time is the caller's)"""

    def __enter__(self):
        install_audit()
        AUDIT["events"] = []
        AUDIT["on"] = True
        return AUDIT["events"]

    def __exit__(self, *a):
        AUDIT["on"] = False
        return False


class Injector:
    def __init__(self, fail_open=None, fail_write=None):
        self.n_open = 0
        self.n_write = 0
        self.fail_open = fail_open
        self.fail_write = fail_write
        self.fired = False
        self.sites = []


_REAL_OPEN = builtins.open
_REAL_IO_OPEN = io.open
CURRENT = Injector()


class _WFile:
    def __init__(self, f, name):
        self._f = f
        self._name = name

    def write(self, b):
        inj = CURRENT
        inj.n_write += 1
        if inj.fail_write == inj.n_write:
            inj.fired = True
            raise OSError(errno.ENOSPC, "No space left on device (injected)", self._name)
        return self._f.write(b)

    def writelines(self, lines):
        for l in lines:
            self.write(l)

    def __getattr__(self, k):
        return getattr(self._f, k)

    def __enter__(self):
        self._f.__enter__()
        return self

    def __exit__(self, *a):
        return self._f.__exit__(*a)

    def __iter__(self):
        return iter(self._f)


def _open(file, mode="r", *a, **k):
    if isinstance(mode, str) and any(c in mode for c in "wax+") and not isinstance(file, int):
        inj = CURRENT
        inj.n_open += 1
        if inj.fail_open == inj.n_open:
            inj.fired = True
            raise OSError(errno.EACCES, "Permission denied (injected)", str(file))
        return _WFile(_REAL_OPEN(file, mode, *a, **k), str(file))
    return _REAL_OPEN(file, mode, *a, **k)


class injecting:
    """with injecting(Injector(...)) as inj: ..."""

    def __init__(self, inj):
        self.inj = inj

    def __enter__(self):
        global CURRENT
        CURRENT = self.inj
        builtins.open = _open
        io.open = _open
        return self.inj

    def __exit__(self, *a):
        builtins.open = _REAL_OPEN
        io.open = _REAL_IO_OPEN
        return False
