"""C07 - mandoline 3D slices interpolate the right samples at every pixel."""
import numpy as np
from hypothesis import strategies as st

from .. import plotgen, pools, refread, slicegen
from ..harness import POISONS, poisoned_empty, qcall
from ..harness import verbosity as harness_verbosity

ID = "C07"
LEVEL = "exploration"
BUDGET = {"quick": 2880, "thorough": 240000}
TECHNIQUE = "property-based testing with metamorphic oracles (affine-exact, constant-exact, poison-independence) and a restricted reference interpolation"
RULE = ("Hypothesis-generated nested 3D plotfiles (1-3 levels, partial refinement, mixed extents, non-zero origin, "
        "anisotropic, any layout) carrying analytic fields A (affine along the normal), K (constant along the normal, "
        "level-independent), T (level-tagged coded payload), R (random) x normal x constructed position class (cell "
        "centre / face / safe fraction between centres of a drawn level, interior box face, half-cell gap next to a "
        "box face, first / last half cell, domain faces, default, outside) x field list (1-4 fields, grid_level, all) "
        "x level limit; 4 runs each (2 numpy.empty poisons x serial / scheduled pool), in 3 of 4 cases followed by a history (one object slicing at another position, then twice at p: bit-identical to the fresh result; arrays returned by the earlier calls - one left alone, one edited in place by the caller - are not written into by the later calls). Oracles: A == alpha+beta*p "
        "away from the domain faces; K == covering pattern; T == linear interpolation of the two bracketing stored "
        "samples at pixels where the statement leaves no freedom; grid_level in the levels having a box within half "
        "a cell; coordinates; default = domain centre; outside refused; runs bit-identical and poison-free. "
        "One frac / gap / face position in three is given as a Python int inside the domain. Non-trivial = >= 2 levels with partial refinement and p not on a level-0 cell centre, or origin != 0.")
ASSUMPTIONS = ["positions are constructed >= 0.05 cell away from every cell centre unless exactly on one (the tool snaps within numpy.isclose)",
               "|origin| <= 10 x domain length so that the isclose band stays below 0.02 cell", ">= 4 cells per direction"]


@st.composite
def cases(draw, tier="quick"):
    spec = draw(slicegen.slice_specs(tier, max_cells=3000 if tier == "quick" else 8000))
    nlev = spec["mesh"]["nlev"]
    mode = draw(st.sampled_from(["names", "names", "names+grid", "all"]))
    k = draw(st.lists(st.integers(0, 3), min_size=1, max_size=4, unique=True))
    limit = draw(st.one_of(st.none(), st.integers(0, nlev - 1)))
    sched = dict(exec=[draw(st.lists(st.integers(0, 7), max_size=6)) for _ in range(nlev)])
    return dict(spec=spec, pos=draw(slicegen.positions(nlev)), mode=mode, fields=k, limit=limit, sched=sched,
                cli=draw(st.sampled_from([False, False, False, True])),
                hist=draw(st.sampled_from([None, "serial", "pool", "serial"])), pos2=draw(slicegen.positions(nlev)))


def compact(case):
    return dict(mesh=case["spec"]["mesh"], geom=case["spec"]["geom"], payload=case["spec"]["payload"],
                pos=case["pos"], mode=case["mode"], fields=case["fields"], limit=case["limit"])


def check_case(case, ctx):
    from amr_kitchen.mandoline import Mandoline
    ctx.fresh()
    plot = plotgen.Plot(case["spec"])
    plotgen.write(plot, "src")
    labs = plot.labels()
    cn = plot.payload["cn"]
    cx, cy = [d for d in range(3) if d != cn]
    limit = case["limit"]
    L = plot.nlev - 1 if limit is None else limit
    p, pcls = slicegen.resolve_position(plot, cn, case["pos"], L)
    if pcls in ("frac", "gap", "face", "boxface") and case["pos"]["index"] % 3 == 0:
        # the position given as a Python int (scripts write pos=1): an integer strictly inside the domain that is, for every
        # level, exactly on a cell centre or at least 0.05 cells away from every cell centre (the generator's own rule)
        import math as _m
        glo, ghi = plot.geo_lo[cn], plot.geo_hi[cn]
        cands = [q for q in range(int(_m.floor(glo)) + 1, int(_m.ceil(ghi))) if glo < q < ghi][:64]

        def fine(q):
            for l in range(plot.nlev):
                t = (q - glo) / plot.dx[l][cn] - 0.5
                fr = abs(t - round(t))
                if fr != 0.0 and fr < 0.05:
                    return False
            return True
        cands = [q for q in cands if fine(q)]
        if cands:
            p, pcls = cands[case["pos"]["index"] % len(cands)], "integer"
    ctx.label(*labs, "pos:" + pcls, f"normal:{cn}", "mode:" + case["mode"])
    if plot.payload.get("r_specials"):
        ctx.label("R-with-inf/huge/denormal-samples")
    if plot.payload.get("k_inf"):
        ctx.label("K-with-infinite-columns")
    if case["spec"]["mesh"].get("slab"):
        ctx.label("refined-slab-across-the-plane")
    if plot.payload.get("amp", 1.0) != 1.0:
        ctx.label(f"amplitude:{plot.payload['amp']:g}")
    names = plot.fields
    if case["mode"] == "all":
        req, out_names, do_grid = ["all"], list(names), True
    else:
        req = [names[i] for i in case["fields"]]
        out_names = list(req)
        do_grid = case["mode"] == "names+grid"
        if do_grid:
            req = req + ["grid_level"]
    lo, hi = plot.geo_lo[cn], plot.geo_hi[cn]
    if pcls == "outside":
        try:
            m = qcall(Mandoline, "src", fields=list(req), limit_level=limit, serial=True, verbose=0)
            qcall(m.slice, normal=cn, pos=p, fformat="return")
        except ValueError:
            return []
        except Exception as e:
            return [f"position {p} outside [{lo}, {hi}] raised {type(e).__name__} instead of being refused cleanly: {e}"]
        return [f"position {p} outside the domain [{lo}, {hi}] along {cn} was answered instead of refused"]
    runs = {}
    for pv in POISONS:
        for serial in (True, False):
            pools.set_schedule(case["sched"] if not serial else None)
            try:
                with poisoned_empty(pv):
                    m = qcall(Mandoline, "src", fields=list(req), limit_level=limit, serial=serial, verbose=harness_verbosity(case))
                    runs[(pv, serial)] = qcall(m.slice, normal=cn, pos=p, fformat="return")
            except Exception as e:
                return [f"mandoline raised {type(e).__name__}: {e} (normal={cn} pos={p} serial={serial})"]
            finally:
                pools.set_schedule(None)
    out = runs[(POISONS[0], True)]
    v = []
    if case.get("hist") and p is not None:
        # (an object that has sliced before re-uses its previous position when none is given: only explicit positions here)
        # history: one Mandoline object that has already sliced elsewhere (same normal) and at p itself answers p
        # exactly as a fresh object does
        ctx.label("history:reused-object-" + case["hist"])
        hserial = case["hist"] == "serial"
        p2, cls2 = slicegen.resolve_position(plot, cn, case["pos2"], L)
        if cls2 == "outside" or p2 is None:
            # (a call without a position re-uses the object's previous one, whatever normal it belonged to: explicit here)
            p2 = (lo + hi) / 2
        pools.set_schedule(None)
        try:
            with poisoned_empty(POISONS[0]):
                m = qcall(Mandoline, "src", fields=list(req), limit_level=limit, serial=hserial, verbose=harness_verbosity(case))
                # (first along another normal: an explicit normal, 0 included, must not fall back to the previous one)
                qcall(m.slice, normal=(cn + 1 + case["pos"]["index"] % 2) % 3, pos=None, fformat="return")
                kept = qcall(m.slice, normal=cn, pos=p2, fformat="return")
                kept_copy = {k: np.array(a, copy=True) for k, a in kept.items() if isinstance(a, np.ndarray)}
                first = qcall(m.slice, normal=cn, pos=p, fformat="return")
                # the caller owns what it was given: editing the returned arrays in place must not change later results
                for key, arr in first.items():
                    if isinstance(arr, np.ndarray) and arr.dtype.kind == "f" and arr.flags.writeable:
                        arr *= 100.0
                        arr -= 7.0
                edited = {k: np.array(a, copy=True) for k, a in first.items() if isinstance(a, np.ndarray)}
                again = qcall(m.slice, normal=cn, pos=p, fformat="return")
            # ... and the arrays the caller was given (and edited) are the caller's: later calls must not write into them
            for key, was in edited.items():
                now = np.asarray(first[key])
                if now.shape != was.shape or not refread.same_bits(now.astype("<f8"), was.astype("<f8")):
                    v.append(f"{key}: the arrays returned by an earlier slice (edited by the caller since) were overwritten when the same "
                             f"Mandoline object ran again: a returned result does not belong to the caller")
                    break
            # what an earlier call returned stays what it was: later slices of the same object must not write into it
            for key, was in kept_copy.items():
                now = np.asarray(kept[key])
                if now.shape != was.shape or not refread.same_bits(now.astype("<f8"), was.astype("<f8")):
                    v.append(f"{key}: the arrays returned by the slice at p2={p2!r} changed while the same Mandoline object sliced "
                             f"again at p={p!r} (normal {cn}, serial={hserial}): a returned result is overwritten by later calls")
                    break
            for name in out_names + (["grid_level"] if do_grid else []) + ["x", "y"]:
                a, b = np.asarray(out.get(name)), np.asarray(again.get(name))
                if a.shape != b.shape or not refread.same_bits(a.astype("<f8"), b.astype("<f8")):
                    v.append(f"{name}: the third slice of one Mandoline object (after p2={p2!r} and p itself, serial={hserial}) "
                             f"differs from the slice a fresh object returns at p={p!r} (normal {cn}, class {pcls})")
                    break
        except Exception as e:
            v.append(f"re-using one Mandoline object raised {type(e).__name__}: {e} (p2={p2!r} then p={p!r} twice, serial={hserial})")
    if case.get("cli") or (p is not None and float(p) == 0.0) or (limit == 0 and case["pos"]["index"] % 2 == 0):
        # (always through the command line too when the position is exactly 0.0 or the limit is 0: values that read as "not given")
        # the command line entry point, array format: the saved .npz must hold the arrays the API returns
        import amr_kitchen.mandoline.cli as cli
        from . import common
        ctx.label("cli")
        argv = ["mandoline", "src", "-n", str(cn), "-f", "array", "-o", "cli_out", "-V", "0", "-v"] + list(req)
        argv += ["--position=" + repr(float(p))] if p is not None else []
        argv += ["-L", str(limit)] if limit is not None else []
        try:
            common.run_main(cli.main, argv)
            with np.load("cli_out.npz") as z:
                saved = {k: z[k] for k in z.files}
            for name in out_names + (["grid_level"] if do_grid else []) + ["x", "y"]:
                if name not in saved or not refread.same_bits(np.asarray(saved[name], dtype="<f8"), np.asarray(out[name], dtype="<f8")):
                    v.append(f"{name}: array saved by the command line differs from the returned array (argv {argv[1:]})")
        except Exception as e:
            v.append(f"mandoline command line raised {type(e).__name__}: {e} (argv {argv[1:]})")
    if p is None:
        p = (lo + hi) / 2
        if abs(float(out["slice_pos"]) - p) > 1e-12 * max(abs(lo), abs(hi), hi - lo):
            v.append(f"default position {out['slice_pos']} is not the domain centre {p}")
    partial = "partial-refinement" in labs
    on_l0_centre = abs(((p - lo) / plot.dx[0][cn] - 0.5) - round((p - lo) / plot.dx[0][cn] - 0.5)) < 1e-9
    ctx.nontrivial((L >= 1 and partial and not on_l0_centre) or "origin!=0" in labs)
    ref = slicegen.reference(plot, cn, p, L)
    gs = plot.grid_size(L)
    shape = (gs[cx], gs[cy])
    # coordinates
    for key, d in (("x", cx), ("y", cy)):
        c = plot.centres(L, d)
        got = np.asarray(out.get(key))
        scale = max(abs(plot.geo_lo[d]), abs(plot.geo_hi[d]))
        if got.shape != c.shape or not np.all(np.abs(got - c) <= 1e-12 * scale):
            v.append(f"{key} coordinates are not the cell centres of level {L} along axis {d}")
    dx0 = plot.dx[0][cn]
    interior = lo + dx0 / 2 <= p <= hi - dx0 / 2
    pp = plot.payload
    for name in out_names:
        got = np.asarray(out.get(name))
        if got.ndim != 2 or got.T.shape != shape:
            v.append(f"{name}: output shape {got.shape}, expected transposed {shape}")
            continue
        g = got.T
        if name == "A" and interior:
            exp = pp["alpha"] + pp["beta"] * p
            tol = 1e-9 * (abs(pp["alpha"]) + abs(pp["beta"]) * max(abs(lo), abs(hi)) + 1e-300)
            bad = ~(np.abs(g - exp) <= tol)
            if bad.any():
                ij = tuple(np.argwhere(bad)[0])
                v.append(f"A (affine along the normal) is not reproduced: pixel {ij} = {g[ij]!r}, expected {exp!r} "
                         f"(normal {cn}, p={p!r}, class {pcls}, finest level there {ref['lstar'][ij]}); {int(bad.sum())} pixels")
        if name == "K":
            i0, j0 = np.meshgrid(np.arange(shape[0]) >> L, np.arange(shape[1]) >> L, indexing="ij")
            exp = slicegen.k_values(i0, j0, pp.get("k_inf"))
            with np.errstate(all="ignore"):
                bad = ~((g == exp) | (np.abs(g - exp) <= 1e-11 * np.abs(exp)))
            if bad.any():
                ij = tuple(np.argwhere(bad)[0])
                v.append(f"K (constant along the normal) differs from the covering data: pixel {ij} = {g[ij]!r}, "
                         f"expected {exp[ij]!r} (normal {cn}, p={p!r}, class {pcls}); {int(bad.sum())} pixels")
        if name in ("T", "R"):
            exp, scale, on_centre = slicegen.reference_values(plot, cn, L, ref, names.index(name), with_scale=True)
            m = ref["strict"] & ~np.isnan(exp)
            with np.errstate(all="ignore"):
                # relative to the larger bracketing sample (no absolute floor: small-amplitude fields are asserted as tightly)
                extra = np.where(np.isfinite(scale), 1e-9 * scale, 0.0) + 1e-300
            if name == "R" and plot.payload.get("r_specials"):
                # with infinite / 1e300 samples around, a plane on a cell centre is ill-conditioned (weight 0 or one
                # ulp times an infinite neighbour): only planes strictly between two centres are asserted
                m = m & ~on_centre
            ctx.counters["strict_pixels"] += int(m.sum())
            ctx.counters["pixels"] += int(m.size)
            with np.errstate(all="ignore"):
                # equal infinities are equal; inf - inf (opposite infinite samples) is NaN in the reference and skipped above
                bad = m & ~((g == exp) | (np.abs(g - exp) <= 1e-9 * np.abs(exp) + extra))
            if bad.any():
                ij = tuple(np.argwhere(bad)[0])
                v.append(f"{name}: pixel {ij} = {g[ij]!r} is not the linear interpolation of the two bracketing stored "
                         f"samples of level {ref['lstar'][ij]} ({exp[ij]!r}) (normal {cn}, p={p!r}, class {pcls}); "
                         f"{int(bad.sum())} pixels")
    if do_grid:
        gl = np.asarray(out.get("grid_level"))
        if gl.ndim != 2 or gl.T.shape != shape:
            v.append(f"grid_level: shape {gl.shape}")
        else:
            g = gl.T
            ok = np.zeros(shape, bool)
            for l in range(L + 1):
                ok |= (g == l) & ((ref["allowed"] >> l) & 1).astype(bool)
            if not ok.all():
                ij = tuple(np.argwhere(~ok)[0])
                v.append(f"grid_level pixel {ij} = {g[ij]!r} is not a level with a box there (allowed mask "
                         f"{ref['allowed'][ij]:b}) (normal {cn}, p={p!r}, class {pcls})")
    for k, r in runs.items():
        for name in out_names + (["grid_level"] if do_grid else []):
            a, b = np.asarray(out.get(name)), np.asarray(r.get(name))
            if a.shape != b.shape or not refread.same_bits(a.astype("<f8"), b.astype("<f8")):
                v.append(f"{name}: result depends on uninitialised memory or on serial/parallel mode (poison={k[0]}, "
                         f"serial={k[1]} differs from the reference run; normal {cn}, p={p!r}, class {pcls})")
                break
            if np.any(b == k[0]):
                v.append(f"{name}: output contains uninitialised memory (normal {cn}, p={p!r}, class {pcls})")
                break
    return v
