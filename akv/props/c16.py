"""C16 - mandoline's plotfile-format slice is a valid 2D plotfile of the plane data."""
import collections

import numpy as np
from hypothesis import strategies as st

from .. import plotgen, pools, refread, slicegen
from ..harness import POISONS, poisoned_empty, qcall
from ..harness import verbosity as harness_verbosity
from . import common

ID = "C16"
LEVEL = "exploration"
BUDGET = {"quick": 1600, "thorough": 70000}
TECHNIQUE = "property-based testing: structure against the generator's mesh, per-level per-box metamorphic data oracles, poison differential"
RULE = ("As C07 (nested 3D plotfiles with analytic fields A / K / T / R, constructed positions, 3 normals, level limits, "
        "field lists in any order, a quarter with 'grid_level' at a drawn position) plus ~15% inputs whose written slice exceeds the 1 MB file-splitting threshold (64x64 footprint, "
        "33-200 fields i.e. 2-7 binary files, 4-40 boxes per level). Output read by the independent reader: taste accepts (incl. coordinates); "
        "time, in-plane bounds, cell sizes, level count; per level the multiset of footprints of exactly the boxes whose "
        "closed normal extent contains p; per box and field the level's own stored samples interpolated linearly "
        "(A == alpha+beta*p away from the domain faces and the nearest sample within the first / last half cell of the "
        "level, K == stored pattern at every pixel, T / R from the two bracketing level samples wherever the level "
        "stores both); min/max rows == extrema of the written data; 2 poison runs bit-identical and poison-free. "
        "A re-used object first slices along another normal; its later slices must equal a fresh object's. Non-trivial = >= 2 levels and p strictly between cell centres of level 0.")
ASSUMPTIONS = ["same position construction and geometry bounds as C07"]


@st.composite
def cases(draw, tier="quick"):
    big = draw(st.integers(0, 2 ** 16)) % 7 == 3
    if big:
        spec = draw(slicegen.big_slice_specs())
    else:
        spec = draw(slicegen.slice_specs(tier, max_cells=3000 if tier == "quick" else 8000))
    nlev = spec["mesh"]["nlev"]
    nf = len(spec["fields"])
    if big:
        mode, k = "all", []
    else:
        mode = draw(st.sampled_from(["names", "names", "all"]))
        k = draw(st.lists(st.integers(0, nf - 1), min_size=1, max_size=4, unique=True))
    limit = draw(st.one_of(st.none(), st.integers(0, nlev - 1)))
    # 'grid_level' somewhere in the requested list (the 2D plotfile carries the other variables, in the requested order)
    gl = draw(st.integers(0, len(k))) if mode == "names" and draw(st.integers(0, 2 ** 16)) % 4 == 0 else None
    return dict(spec=spec, pos=draw(slicegen.positions(nlev)), mode=mode, fields=k, limit=limit, big=big, gl=gl,
                serial=draw(st.booleans()), cli=draw(st.sampled_from([False, False, False, True])),
                sched=dict(exec=[draw(st.lists(st.integers(0, 7), max_size=6)) for _ in range(nlev)],
                           comp=[draw(st.lists(st.integers(0, 7), max_size=6)) for _ in range(nlev)]))


def compact(case):
    return dict(mesh=case["spec"]["mesh"], geom=case["spec"]["geom"], nfields=len(case["spec"]["fields"]),
                payload=case["spec"]["payload"], pos=case["pos"], mode=case["mode"], fields=case["fields"],
                limit=case["limit"], big=case["big"], gl=case.get("gl"))


def check_case(case, ctx):
    from amr_kitchen.mandoline import Mandoline
    ctx.fresh()
    plot = plotgen.Plot(case["spec"])
    plotgen.write(plot, "src")
    labs = plot.labels()
    cn = plot.payload["cn"]
    cx, cy = [d for d in range(3) if d != cn]
    limit = case["limit"]
    L = plot.nlev - 1 if limit is None else limit
    pos = dict(case["pos"])
    if pos["cls"] in ("outside",):
        pos["cls"] = "frac"
    p, pcls = slicegen.resolve_position(plot, cn, pos, L)
    if p is None:
        p = (plot.geo_lo[cn] + plot.geo_hi[cn]) / 2
        parg = None
    else:
        parg = p
    names = plot.fields
    req = ["all"] if case["mode"] == "all" else [names[i] for i in case["fields"]]
    out_names = list(names) if case["mode"] == "all" else list(req)
    if case.get("gl") is not None and case["mode"] != "all":
        req = req[:case["gl"]] + ["grid_level"] + req[case["gl"]:]
        ctx.label("grid_level-in-the-list")
    # the command line is always used when the position is exactly 0.0 or the level limit is 0 (values that read as "not given")
    use_cli = bool(case.get("cli")) or (parg is not None and float(parg) == 0.0) or (limit == 0 and not case["big"] and case["pos"]["index"] % 2 == 0)
    ctx.label(*labs, "pos:" + pcls, f"normal:{cn}", "big" if case["big"] else "small", "cli" if use_cli else "api")
    if plot.payload.get("r_specials"):
        ctx.label("R-with-inf/huge/denormal-samples")
    if plot.payload.get("k_inf"):
        ctx.label("K-with-infinite-columns")
    if plot.payload.get("amp", 1.0) != 1.0:
        ctx.label(f"amplitude:{plot.payload['amp']:g}")
    lo_n = plot.geo_lo[cn]
    kk0 = (p - lo_n) / plot.dx[0][cn] - 0.5
    ctx.nontrivial(L >= 1 and abs(kk0 - round(kk0)) > 1e-9)
    outs = []
    for i, pv in enumerate(POISONS):
        pools.set_schedule(None if case["serial"] else case["sched"])
        try:
            with poisoned_empty(pv):
                if use_cli:
                    import amr_kitchen.mandoline.cli as cli
                    argv = ["mandoline", "src", "-n", str(cn), "-f", "plotfile", "-o", f"out{i}", "-V", "0", "-v"] + list(req)
                    argv += ["--position=" + repr(float(parg))] if parg is not None else []
                    argv += ["-L", str(limit)] if limit is not None else []
                    argv += ["-s"] if case["serial"] else []
                    common.run_main(cli.main, argv)
                else:
                    m = qcall(Mandoline, "src", fields=list(req), limit_level=limit, serial=case["serial"], verbose=harness_verbosity(case))
                    qcall(m.slice, normal=cn, pos=parg, fformat="plotfile", outfile=f"out{i}")
        except Exception as e:
            return [f"mandoline raised {type(e).__name__}: {e} (normal={cn} pos={p!r} class {pcls} limit={limit})"]
        finally:
            pools.set_schedule(None)
    v = []
    if not use_cli:
        # history: the second and third plotfile-format slices written by one object (after a first one along another normal)
        # equal the first slice of a fresh one
        from ..harness import tree_files
        ctx.label("history:reused-object")
        pools.set_schedule(None if case["serial"] else case["sched"])
        try:
            with poisoned_empty(POISONS[0]):
                m = qcall(Mandoline, "src", fields=list(req), limit_level=limit, serial=case["serial"], verbose=harness_verbosity(case))
                # (the first one along another normal when the position is explicit: nothing of it - bounds, sizes, names -
                #  may carry over into the later slices; without a position an object re-uses its previous one)
                other = (cn + 1 + case["pos"]["index"] % 2) % 3 if p is not None else cn
                qcall(m.slice, normal=other, pos=None if other != cn else p, fformat="plotfile", outfile="h1")
                for name in ("h2", "h3"):
                    qcall(m.slice, normal=cn, pos=p, fformat="plotfile", outfile=name)
            first = tree_files("out0")
            for name in ("h2", "h3"):
                if tree_files(name) != first:
                    v.append(f"slice #{name[1]} written by one Mandoline object differs from the slice a fresh object writes "
                             f"(normal={cn} pos={p!r} class {pcls} limit={limit} serial={case['serial']})")
                    break
        except Exception as e:
            v.append(f"re-using one Mandoline object for plotfile-format slices raised {type(e).__name__}: {e} "
                     f"(normal={cn} pos={p!r} limit={limit} serial={case['serial']})")
        finally:
            pools.set_schedule(None)
    v += common.taste_accepts("out0")
    o, msgs = common.read_output("out0")
    if o is None:
        return v + msgs
    o1, msgs = common.read_output("out1")
    if o1 is None:
        return v + msgs
    what = f"(normal {cn}, p={p!r}, class {pcls}, limit {limit})"
    # ---- header
    if o["ndims"] != 2:
        v.append(f"output is {o['ndims']}D")
        return v
    if "grid_level" in req and "grid_level" in o["fields"]:
        # a tool that stores the level index as a component of its own is not contradicted by the statement: drop it
        keep = [i for i, f in enumerate(o["fields"]) if f != "grid_level"]
        for oo in (o, o1):
            oo["fields"] = [oo["fields"][i] for i in keep]
            for lev in oo["levels"]:
                lev["data"] = [d[..., keep] for d in lev["data"]]
                if lev["mins"] is not None:
                    lev["mins"] = [[r[i] for i in keep] for r in lev["mins"]]
                    lev["maxs"] = [[r[i] for i in keep] for r in lev["maxs"]]
    if o["fields"] != out_names:
        v.append(f"fields {o['fields'][:6]} != requested {out_names[:6]} (request {req[:7]})")
        return v
    if o["time"] != plot.time:
        v.append(f"time {o['time']!r} != input {plot.time!r}")
    if o["geo_lo"] != [plot.geo_lo[cx], plot.geo_lo[cy]] or o["geo_hi"] != [plot.geo_hi[cx], plot.geo_hi[cy]]:
        v.append(f"in-plane bounds {o['geo_lo']}..{o['geo_hi']} != input")
    if o["max_level"] != L:
        v.append(f"finest level {o['max_level']} != {L}")
        return v
    fi = [names.index(n) for n in out_names]
    pp = plot.payload
    tolA = 1e-9 * (abs(pp["alpha"]) + abs(pp["beta"]) * max(abs(plot.geo_lo[cn]), abs(plot.geo_hi[cn])) + 1e-300)
    for l in range(L + 1):
        olev = o["levels"][l]
        if o["dx"][l] != [plot.dx[l][cx], plot.dx[l][cy]]:
            v.append(f"level {l}: cell sizes {o['dx'][l]} != input in-plane {[plot.dx[l][cx], plot.dx[l][cy]]}")
        if o["grid_sizes"][l] != [plot.grid_size(l)[cx], plot.grid_size(l)[cy]]:
            v.append(f"level {l}: grid size {o['grid_sizes'][l]}")
        dx = plot.dx[l][cn]
        tol = 1e-9 * dx
        # boxes the plane certainly meets, and boxes with a face within rounding distance of the plane (the statement
        # cannot say on which side of such a face the plane is: those boxes may or may not be listed)
        boxes_l = plot.levels[l]["boxes"]
        strict = [b for b, (blo, bhi) in enumerate(boxes_l)
                  if lo_n + blo[cn] * dx + tol < p < lo_n + (bhi[cn] + 1) * dx - tol]
        meet = [b for b, (blo, bhi) in enumerate(boxes_l)
                if lo_n + blo[cn] * dx - tol <= p <= lo_n + (bhi[cn] + 1) * dx + tol]
        fp = lambda b: ((boxes_l[b][0][cx], boxes_l[b][0][cy]), (boxes_l[b][1][cx], boxes_l[b][1][cy]))
        need_fp = collections.Counter(fp(b) for b in strict)
        exp_fp = collections.Counter(fp(b) for b in meet)
        got_fp = collections.Counter((tuple(lo), tuple(hi)) for lo, hi in olev["idx"])
        covered = lambda c: set((i, j) for (lo2, hi2) in c for i in range(lo2[0], hi2[0] + 1) for j in range(lo2[1], hi2[1] + 1))
        # where the plane lies on a face shared by a box below and a box above, at least one of the two must be listed
        below = covered(fp(b) for b in meet if b not in strict and abs(lo_n + (boxes_l[b][1][cn] + 1) * dx - p) <= tol)
        above = covered(fp(b) for b in meet if b not in strict and abs(lo_n + boxes_l[b][0][cn] * dx - p) <= tol)
        must_cover = covered(need_fp) | (below & above)

        if (need_fp - got_fp) or (got_fp - exp_fp) or not must_cover <= covered(got_fp):
            missing = list((need_fp - got_fp).elements())[:3] or sorted(must_cover - covered(got_fp))[:3]
            extra = list((got_fp - exp_fp).elements())[:3]
            v.append(f"level {l}: footprints differ from the boxes the plane meets: missing {missing} extra {extra} "
                     f"({len(olev['idx'])} written, {len(strict)}..{len(meet)} expected) {what}")
            continue
        if len(meet) != len(strict):
            ctx.label("plane-on-a-box-face (either side accepted)")
        if not meet:
            ctx.label("level-without-boxes")
            continue
        k0, k1, w1 = slicegen.level_bracket(plot, cn, p, l)
        S0 = [slicegen.level_samples(plot, cn, l, k0, f) for f in fi]
        S1 = S0 if k1 == k0 else [slicegen.level_samples(plot, cn, l, k1, f) for f in fi]
        for b, (lo2, hi2) in enumerate(olev["idx"]):
            sl = (slice(lo2[0], hi2[0] + 1), slice(lo2[1], hi2[1] + 1))
            data = olev["data"][b]
            phys = olev["phys"][b]
            ephys = [[plot.geo_lo[d] + lo2[i] * plot.dx[l][d], plot.geo_lo[d] + (hi2[i] + 1) * plot.dx[l][d]]
                     for i, d in enumerate((cx, cy))]
            if not np.allclose(np.array(phys), np.array(ephys), rtol=1e-12, atol=1e-12 * max(abs(plot.geo_hi[cx]), abs(plot.geo_hi[cy]), 1e-300)):
                v.append(f"level {l} box {lo2}..{hi2}: physical bounds {phys} != {ephys}")
            two_sided = ~np.isnan(S0[0][sl]) & ~np.isnan(S1[0][sl])
            everywhere = np.ones_like(two_sided)
            if not two_sided.all():
                ctx.label("one-sided-box (T/R not asserted there)")
            n_l = plot.grid_size(l)[cn]
            for j, name in enumerate(out_names):
                g = data[..., j]
                mask = everywhere
                if name == "A":
                    # exact away from the domain faces; the single nearest sample in the first / last half cell
                    if k0 < 0 or k1 > n_l - 1:
                        cnear = lo_n + (0.5 if k0 < 0 else n_l - 0.5) * dx
                        exp = np.full(g.shape, pp["alpha"] + pp["beta"] * cnear)
                    else:
                        exp = np.full(g.shape, pp["alpha"] + pp["beta"] * p)
                    t = tolA
                elif name == "K":
                    exp = slicegen.k_pattern(l, lo2, hi2, pp.get("k_inf"))
                    with np.errstate(all="ignore"):
                        t = np.where(np.isfinite(exp), 1e-11 * np.abs(exp), 0.0)
                else:
                    mask = two_sided
                    with np.errstate(all="ignore"):
                        exp = S0[j][sl] * (1.0 - w1) + S1[j][sl] * w1 if k0 != k1 else S0[j][sl]
                        # relative to the larger bracketing sample (no absolute floor: small-amplitude fields are asserted as tightly)
                        sc = np.maximum(np.abs(S0[j][sl]), np.abs(S1[j][sl]))
                        t = 1e-9 * np.abs(exp) + np.where(np.isfinite(sc), 1e-9 * sc, 0.0) + 1e-300
                        if name == "R" and pp.get("r_specials"):
                            # see C07: with infinite / 1e300 samples only planes strictly between two centres are asserted
                            if k0 == k1:
                                mask = np.zeros_like(two_sided)
                with np.errstate(all="ignore"):
                    bad = mask & ~np.isnan(exp) & ~((g == exp) | (np.abs(g - exp) <= t))
                if bad.any():
                    ij = tuple(np.argwhere(bad)[0])
                    v.append(f"level {l} box {lo2}..{hi2} field {name}: pixel {ij} = {g[ij]!r}, expected {exp[ij]!r} from "
                             f"the level's own samples {k0},{k1} {what}; {int(bad.sum())} pixels")
                    break
            # poison independence and min/max rows
            if not refread.same_bits(data, o1["levels"][l]["data"][b]):
                v.append(f"level {l} box {lo2}..{hi2}: written data depends on uninitialised memory {what}")
            if np.any(data == POISONS[0]):
                v.append(f"level {l} box {lo2}..{hi2}: written data contains uninitialised memory {what}")
            if olev["mins"] is None or b >= len(olev["mins"]):
                v.append(f"level {l}: min/max tables unreadable")
            else:
                d2 = data.reshape(-1, data.shape[-1])
                emn = [float("%.16e" % x) for x in np.min(d2, axis=0)]
                emx = [float("%.16e" % x) for x in np.max(d2, axis=0)]
                if not refread.float_rows_equal(olev["mins"][b], emn) or not refread.float_rows_equal(olev["maxs"][b], emx):
                    v.append(f"level {l} box {lo2}..{hi2}: min/max rows are not the extrema of the written data {what}")
            if len(v) >= 4:
                return v
        files = set(fn for fn, _ in olev["fod"])
        if len(files) > 1:
            ctx.label("level-split-over-files")
            ctx.label(f"split:{len(olev['idx'])}boxes/{len(files)}files")
    return v
