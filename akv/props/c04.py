"""C04 - taste rejects missing, truncated, shifted or inconsistent plotfile data."""
from hypothesis import strategies as st

from .. import corrupt, plotgen
from ..harness import qcall
from ..harness import verbosity as harness_verbosity

ID = "C04"
LEVEL = "fault_enumeration"
BUDGET = {"quick": 4800, "thorough": 320000}
TECHNIQUE = "fault injection by generated corruption sequences; independent reference validator as the oracle"
RULE = ("Hypothesis-generated 2D/3D plotfiles x a sequence of 1-2 corruption operators (27 kinds covering every "
        "C04 class: missing binary / level header, truncate / extend / insert / remove bytes, FAB header shape / "
        "component count / shifted range, level-header range shift / reshape, deleted box or FabOnDisk line with and "
        "without fixed counts, unparsable entries, entries pointing at a missing file / another FAB / FAB data / past "
        "EOF / negative, physical bounds moved by >= 1 box width with coordinate validation on) at drawn sites, "
        "x level limit; the thorough tier also sweeps every operator at every box of small plotfiles. Oracle: when the "
        "independent reference validator finds an inconsistency of a listed class inside the validated levels, taste "
        "Box bounds are also replaced by nan / inf / overflowing literals. must raise in failing mode and evaluate false without raising in nofail mode. Non-trivial = the reference "
        "finds the tree inconsistent and (site is not box 0 of level 0, or the layout is scattered / non-monotone, "
        "or two operators applied).")
ASSUMPTIONS = ["the reference validator (akv/corrupt.py: sequential structural scan + cross reference) decides 'inconsistent'",
               "edits that leave the tree consistent for the reference (cancelling pairs, damage above the limit) assert nothing here"]


@st.composite
def cases(draw, tier="quick"):
    spec = draw(plotgen.plot_specs(thin=True, max_cells=1500 if tier == "quick" else 5000, max_fields=4,
                                   payload_kinds=("coded", "random")))
    coords = draw(st.sampled_from([False, False, True]))
    kinds = corrupt.HARD + (corrupt.COORD * 4 if coords else [])
    ops = draw(st.lists(corrupt.op_strategy(kinds), min_size=1, max_size=2))
    limit = draw(st.one_of(st.none(), st.integers(0, spec["mesh"]["nlev"] - 1)))
    return dict(spec=spec, ops=ops, limit=limit, coords=coords)


def extra_cases(tier, shard, nshards, vseed):
    """Every operator at every box of small plotfiles (thorough: 200 plotfiles; quick: a handful)."""
    from ..harness import draw_examples
    n = 3 if tier == "quick" else 13
    specs = draw_examples(plotgen.plot_specs(max_cells=400, max_levels=2, max_fields=2, payload_kinds=("coded",)),
                          n, vseed * 31 + shard)
    for spec in specs[:n]:
        plot = plotgen.Plot(spec)
        for l in range(plot.nlev):
            for b in range(min(len(plot.levels[l]["boxes"]), 6)):
                for kind in corrupt.HARD + corrupt.COORD:
                    yield dict(spec=spec, ops=[dict(kind=kind, lv=l, box=b, amt=8 if kind != "cellh_garble_box" else 1,
                                                    dim=(b + l) % 3, side=b % 2)],
                               limit=None, coords=kind in corrupt.COORD, sweep=True)


def compact(case):
    return dict(mesh=case["spec"]["mesh"], ops=case["ops"], limit=case["limit"], coords=case["coords"])


def check_case(case, ctx):
    from amr_kitchen.taste import Taster
    ctx.fresh()
    plot = plotgen.Plot(case["spec"])
    plotgen.write(plot, "src")
    labs = plot.labels()
    sites = []
    for op in case["ops"]:
        try:
            sites.append(corrupt.apply("src", op))
            ctx.label("op:" + op["kind"])
        except corrupt.NotApplicable:
            ctx.label("op-not-applicable")
    limit = case["limit"]
    coords = bool(case["coords"])
    inc = corrupt.validate("src", limit, coords)
    if case.get("sweep"):
        ctx.label("site-sweep")
    if not inc:
        ctx.label("reference:consistent (nothing asserted)")
        return []
    for cls in sorted(set(c for c, _ in inc)):
        ctx.label("class:" + cls)
    ctx.nontrivial(len(sites) >= 2 or any(s["lv"] > 0 or s["box"] > 0 for s in sites)
                   or "scattered" in labs or "non-monotone" in labs)
    v = []
    what = f"ops {[o['kind'] for o in case['ops']]} at {sites}, reference finds {inc[:2]}"
    try:
        ok = qcall(lambda: bool(Taster("src", limit_level=limit, nofail=True, verbose=0, boxes_coordinates=coords)))
        if ok:
            v.append(f"non-failing mode reports the plotfile good: {what}")
    except Exception as e:
        v.append(f"non-failing mode raised {type(e).__name__}: {str(e)[:150]} ({what})")
    try:
        qcall(lambda: Taster("src", limit_level=limit, verbose=harness_verbosity(case), boxes_coordinates=coords))
        v.append(f"failing mode did not raise: {what}")
    except Exception:
        pass
    if case.get("cli", True) and len(case["ops"]) == 1:
        # the command line in its default (failing) mode must end with an error, not a normal return
        import amr_kitchen.taste.cli as cli
        from . import common
        argv = ["taste", "src", "-v", "0"] + (["-bc"] if coords else []) + (["-l", str(limit)] if limit is not None else [])
        try:
            common.run_main(cli.main, argv)
            v.append(f"the taste command line returned normally: {what}")
        except Exception:
            pass
    return v
