"""C19 - point queries at interior cell centres return the stored cell value."""
import numpy as np
from hypothesis import strategies as st

from .. import plotgen
from ..harness import qcall

ID = "C19"
LEVEL = "exploration"
BUDGET = {"quick": 640, "thorough": 250000}
TECHNIQUE = "property-based testing: constructed interior cell centres, stored value from the generator's payload as the oracle"
RULE = ("Hypothesis-generated nested 3D plotfiles (non-zero origin, anisotropic cells, 1-3 levels, any layout, finite "
        "random payload |v| <= 1e3) x ~10 query points per plotfile constructed as centres of cells that belong to the "
        "finest selected level covering them and lie >= 1 cell inside their box, x field selection (name, index, "
        "ascending name / index list; permuted and negative index lists under the either-rule: refused or right) x reader level limit; plus points outside the domain (below / above / far, one "
        "coordinate at a time). Interior: every selected field's value within 1e-8*(1+max|box|) of the stored cell; "
        "outside: an exception. Non-trivial = origin != 0 or anisotropic or a point on level >= 1.")
ASSUMPTIONS = ["cubic-spline evaluation at an integer node reproduces the node value to rounding (tolerance 1e-8 relative to the box)"]


@st.composite
def cases(draw, tier="quick"):
    spec = draw(plotgen.plot_specs(ndims=3, max_cells=2500 if tier == "quick" else 8000, min_fields=1, max_fields=4,
                                   payload_kinds=("random",)))
    nf = len(spec["fields"])
    nlev = spec["mesh"]["nlev"]
    pts = []
    for _ in range(draw(st.integers(6, 12))):
        kind = draw(st.sampled_from(["in", "in", "in", "in", "out"]))
        fsel = ["name", "int", "names", "ints", "names_perm", "ints_perm", "ints_neg"][draw(st.integers(0, 2 ** 16)) % 7]
        k = draw(st.lists(st.integers(0, nf - 1), min_size=1, max_size=nf, unique=True))
        pts.append(dict(kind=kind, fsel=fsel, fields=k, lv=draw(st.integers(0, nlev - 1)), box=draw(st.integers(0, 60)),
                        cell=[draw(st.integers(0, 40)) for _ in range(3)], dim=draw(st.integers(0, 2)),
                        out=draw(st.sampled_from(["below", "above", "far_below", "far_above"]))))
    return dict(spec=spec, limit=draw(st.one_of(st.none(), st.integers(0, nlev - 1))), points=pts)


def compact(case):
    return dict(mesh=case["spec"]["mesh"], geom=case["spec"]["geom"], fields=case["spec"]["fields"], limit=case["limit"],
                points=case["points"][:3])


def check_case(case, ctx):
    from amr_kitchen import PlotfileCooker
    ctx.fresh()
    plot = plotgen.Plot(case["spec"])
    plotgen.write(plot, "src")
    labs = plot.labels()
    ctx.label(*labs)
    limit = case["limit"]
    L = plot.nlev - 1 if limit is None else limit
    try:
        pck = qcall(PlotfileCooker, "src", limit_level=limit)
    except Exception as e:
        return [f"opening raised {type(e).__name__}: {e}"]
    v = []
    names = plot.fields
    for pi, pt in enumerate(case["points"]):
        if pt["fsel"] == "name":
            fobj, fi, single = names[pt["fields"][0]], [pt["fields"][0]], True
        elif pt["fsel"] == "int":
            fobj, fi, single = pt["fields"][0], [pt["fields"][0]], True
        elif pt["fsel"] == "names":
            fi = sorted(pt["fields"])
            fobj, single = [names[i] for i in fi], False
        elif pt["fsel"] == "ints":
            fi = sorted(pt["fields"])
            fobj, single = list(fi), False
        elif pt["fsel"] == "names_perm":         # as drawn: any order
            fi = list(pt["fields"])
            fobj, single = [names[i] for i in fi], False
        elif pt["fsel"] == "ints_perm":
            fi = list(pt["fields"])
            fobj, single = list(fi), False
        else:                                    # negative indices, any order
            fi = list(pt["fields"])
            fobj, single = [i - len(names) for i in fi], False
        # ascending lists are the listed form; any other order may be refused but must never return other fields' values
        either = pt["fsel"] in ("names_perm", "ints_perm", "ints_neg") and fi != sorted(fi) or pt["fsel"] == "ints_neg"
        if pt["kind"] == "out":
            centre = [(plot.geo_lo[d] + plot.geo_hi[d]) / 2 for d in range(3)]
            d = pt["dim"]
            w = plot.geo_hi[d] - plot.geo_lo[d]
            centre[d] = {"below": plot.geo_lo[d] - 0.01 * w, "above": plot.geo_hi[d] + 0.01 * w,
                         "far_below": plot.geo_lo[d] - 50 * w, "far_above": plot.geo_hi[d] + 50 * w}[pt["out"]]
            ctx.label("point:outside")
            try:
                got = qcall(lambda: pck[fobj](*centre))
                v.append(f"point {pi} {centre} outside the domain along axis {d} was answered with {got!r}")
            except Exception:
                pass
            continue
        lv = min(pt["lv"], L)
        boxes = plot.levels[lv]["boxes"]
        # boxes with an interior (extent >= 3 in every direction)
        cand = [b for b, (lo, hi) in enumerate(boxes) if all(hi[d] - lo[d] + 1 >= 3 for d in range(3))]
        if not cand:
            ctx.label("point:no-interior-box")
            continue
        b = cand[pt["box"] % len(cand)]
        lo, hi = boxes[b]
        cell = [lo[d] + 1 + pt["cell"][d] % (hi[d] - lo[d] - 1) for d in range(3)]
        if plot.covered_mask(lv, L)[tuple(cell)]:
            ctx.label("point:covered-by-finer (skipped)")
            continue
        xyz = [plot.geo_lo[d] + (cell[d] + 0.5) * plot.dx[lv][d] for d in range(3)]
        data = plot.box_data(lv, b)
        stored = data[cell[0] - lo[0], cell[1] - lo[1], cell[2] - lo[2], fi]
        tol = 1e-8 * (1.0 + float(np.max(np.abs(data[..., fi]))))
        ctx.label(f"point:level{lv}", "fsel:" + pt["fsel"])
        if lv >= 1 or "origin!=0" in labs or "anisotropic" in labs:
            ctx.nontrivial()
        try:
            got = qcall(lambda: pck[fobj](*xyz))
        except Exception as e:
            if not either:
                v.append(f"point {pi} at the centre of level {lv} cell {cell} (box {b}, {xyz}) raised {type(e).__name__}: {e}")
            continue
        g = np.atleast_1d(np.asarray(got, dtype=float)).ravel()
        if g.shape != (len(fi),):
            v.append(f"point {pi}: returned {g.shape[0]} values for {len(fi)} selected fields ({pt['fsel']})")
            continue
        if not np.all(np.abs(g - stored) <= tol):
            v.append(f"point {pi} at the centre of level {lv} cell {cell} (box {b} {lo}..{hi}, xyz {xyz}): returned "
                     f"{g.tolist()} but the stored cell holds {stored.tolist()} (fields {fi}, selector {pt['fsel']})")
    return v
