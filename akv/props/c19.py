"""C19 - point queries at interior cell centres return the stored cell value."""
import os
import numpy as np
from hypothesis import strategies as st

from .. import plotgen
from ..harness import qcall

ID = "C19"
LEVEL = "exploration"
BUDGET = {"quick": 1920, "thorough": 250000}
TECHNIQUE = "property-based testing: constructed interior cell centres, stored value from the generator's payload as the oracle"
RULE = ("Hypothesis-generated nested 3D plotfiles (non-zero origin incl. a quarter placed 1e3-3e5 domain lengths away, anisotropic cells, 1-3 levels, any layout, finite "
        "random payload, per-field magnitudes 1e-3..1e4 or, in half the cases, 1e-12..1e9 in one box) x ~10 query points per plotfile constructed as centres of cells that belong to the "
        "finest selected level covering them and lie >= 1 cell inside their box, x field selection (name, index, "
        "ascending name / index list; permuted and negative index lists under the either-rule: refused or right) x reader level limit; plus points outside the domain (a hair 1e-9 L / 1% / 50 L below or above, one "
        "coordinate at a time); in half the cases one selection object answers all points of the case. Interior: every selected field's value within 1e-8*max|that field in the box| of the stored cell; "
        "One plotfile in six has boxes 24-32 cells long, with several queries of one reader in the same box. outside: an exception. Non-trivial = origin != 0 or anisotropic or a point on level >= 1.")
ASSUMPTIONS = ["cubic-spline evaluation at an integer node reproduces the node value to rounding (tolerance 1e-8 relative to the box)"]


@st.composite
def cases(draw, tier="quick"):
    spec = draw(plotgen.plot_specs(thin=True, level_prefix=True, ndims=3, max_cells=2500 if tier == "quick" else 8000, min_fields=1, max_fields=4,
                                   payload_kinds=("random",)))
    if draw(st.integers(0, 2 ** 16)) % 6 == 0:
        # boxes 24 to 32 cells long in one direction (one block wide in the others): local indices beyond any small
        # window, several queries landing in the same box
        long_dim = draw(st.integers(0, 2))
        nb0 = [1, 1, 1]
        nb0[long_dim] = draw(st.sampled_from([3, 4]))
        spec["mesh"].update(bf=8, m=4, nb0=nb0, chop_seed=0, thin0=0, no_unit=False)
        spec["long_boxes"] = True
    nf = len(spec["fields"])
    nlev = spec["mesh"]["nlev"]
    # "wherever the domain is placed in space": a quarter of the plotfiles sit far from the origin (map-like coordinates,
    # |x| up to 3e5 domain lengths), in one or more directions
    far = [0.0, 0.0, 0.0, 1e3, 3e4, -1e5, 3e5, -7e3][draw(st.integers(0, 2 ** 16)) % 8]
    if far:
        dims = draw(st.lists(st.integers(0, 2), min_size=1, max_size=3, unique=True))
        for d in dims:
            spec["geom"]["origin"][d] = far * spec["geom"]["lengths"][d]
        spec["far"] = far
    if draw(st.booleans()):
        spec["payload"]["wide"] = True
    pts = []
    for _ in range(draw(st.integers(6, 12))):
        kind = draw(st.sampled_from(["in", "in", "in", "in", "out"]))
        fsel = ["name", "int", "names", "ints", "names_perm", "ints_perm", "ints_neg"][draw(st.integers(0, 2 ** 16)) % 7]
        k = draw(st.lists(st.integers(0, nf - 1), min_size=1, max_size=nf, unique=True))
        pts.append(dict(kind=kind, fsel=fsel, fields=k, lv=draw(st.integers(0, nlev - 1)), box=draw(st.integers(0, 60)),
                        cell=[draw(st.integers(0, 40)) for _ in range(3)], dim=draw(st.integers(0, 2)),
                        out=draw(st.sampled_from(["below", "above", "far_below", "far_above", "hair_below", "hair_above"]))))
    # reuse: one selection object answers all the points of the case (probe = pck[fields]; probe(p1); probe(p2); ...)
    # a refinement ratio of 4: the middle level of a three-level plotfile is removed after writing (Header rewritten)
    return dict(spec=spec, limit=draw(st.one_of(st.none(), st.integers(0, nlev - 1))), points=pts, reuse=draw(st.booleans()),
                ratio4=nlev == 3 and draw(st.integers(0, 2 ** 16)) % 3 == 0)


def compact(case):
    return dict(mesh=case["spec"]["mesh"], geom=case["spec"]["geom"], fields=case["spec"]["fields"], limit=case["limit"],
                points=case["points"][:3])


def drop_middle_level(path, plot):
    """Turns a three-level ratio-2 plotfile into a two-level one with refinement ratio 4 (levels 0 and 2 kept)."""
    import re
    import shutil
    with open(os.path.join(path, "Header")) as fh:
        lines = fh.read().split("\n")
    nf = int(lines[1])
    i = 2 + nf
    nd = int(lines[i]); i += 2                  # ndims, time
    assert int(lines[i]) == 2
    lines[i] = "1"; i += 3                      # finest level, low, high
    lines[i] = "4" + (" " if lines[i].endswith(" ") else ""); i += 1
    doms = re.findall(r"\(\([^()]*\) \([^()]*\) \([^()]*\)\)", lines[i])
    lines[i] = " ".join([doms[0], doms[2]]) + (" " if lines[i].endswith(" ") else ""); i += 1
    lines[i] = " ".join(lines[i].split()[:2]) + (" " if lines[i].endswith(" ") else ""); i += 1
    del lines[i + 1]                            # cell size of level 1
    i += 2 + 2                                  # two dx lines, coordinate system, zero
    out = lines[:i]
    for l in range(3):
        nb = int(lines[i].split()[1])
        n = 2 + nb * nd + 1
        sec = lines[i:i + n]
        i += n
        if l == 1:
            continue
        if l == 2:
            t = sec[0].split()
            sec[0] = " ".join(["1"] + t[1:])
            sec[-1] = f"{plot.level_dir(1)}/Cell"
        out += sec
    out += lines[i:]
    with open(os.path.join(path, "Header"), "w") as fh:
        fh.write("\n".join(out))
    shutil.rmtree(os.path.join(path, plot.level_dir(1)))
    os.rename(os.path.join(path, plot.level_dir(2)), os.path.join(path, plot.level_dir(1)))


def check_case(case, ctx):
    from amr_kitchen import PlotfileCooker
    ctx.fresh()
    plot = plotgen.Plot(case["spec"])
    plotgen.write(plot, "src")
    ratio4 = bool(case.get("ratio4")) and plot.nlev == 3
    if ratio4:
        drop_middle_level("src", plot)
        ctx.label("refinement-ratio-4")
    labs = plot.labels()
    ctx.label(*labs)
    if case["spec"].get("long_boxes"):
        ctx.label("boxes-24-to-32-cells-long")
    limit = case["limit"]
    L = plot.nlev - 1 if limit is None else limit
    if ratio4:
        # generator levels 0 and 2 are the file's levels 0 and 1; a limit >= 1 selects both
        limit = None if limit is None else min(limit, 1)
        L = 2 if (limit is None or limit == 1) else 0
    try:
        pck = qcall(PlotfileCooker, "src", limit_level=limit)
    except Exception as e:
        return [f"opening raised {type(e).__name__}: {e}"]
    v = []
    names = plot.fields
    reuse = bool(case.get("reuse"))
    sels = {}
    if reuse:
        ctx.label("selector-reused")
    if case["spec"].get("far"):
        ctx.label("far-placed")

    def query(fobj, xyz):
        if not reuse:
            return pck[fobj](*xyz)
        key = repr(fobj)
        if key not in sels:
            sels[key] = pck[fobj]
        return sels[key](*xyz)

    for pi, pt in enumerate(case["points"]):
        if reuse:                                # same selection for every point of the case
            pt = dict(pt, fsel=case["points"][0]["fsel"], fields=case["points"][0]["fields"])
        if pt["fsel"] == "name":
            fobj, fi, single = names[pt["fields"][0]], [pt["fields"][0]], True
        elif pt["fsel"] == "int":
            fobj, fi, single = pt["fields"][0], [pt["fields"][0]], True
        elif pt["fsel"] == "names":
            fi = sorted(pt["fields"])
            fobj, single = [names[i] for i in fi], False
        elif pt["fsel"] == "ints":
            fi = sorted(pt["fields"])
            fobj, single = list(fi), False
        elif pt["fsel"] == "names_perm":         # as drawn: any order
            fi = list(pt["fields"])
            fobj, single = [names[i] for i in fi], False
        elif pt["fsel"] == "ints_perm":
            fi = list(pt["fields"])
            fobj, single = list(fi), False
        else:                                    # negative indices, any order
            fi = list(pt["fields"])
            fobj, single = [i - len(names) for i in fi], False
        # ascending lists are the listed form; any other order may be refused but must never return other fields' values
        either = pt["fsel"] in ("names_perm", "ints_perm", "ints_neg") and fi != sorted(fi) or pt["fsel"] == "ints_neg"
        if pt["kind"] == "out":
            centre = [(plot.geo_lo[d] + plot.geo_hi[d]) / 2 for d in range(3)]
            d = pt["dim"]
            w = plot.geo_hi[d] - plot.geo_lo[d]
            hair = max(1e-9 * w, 64 * np.spacing(max(abs(plot.geo_lo[d]), abs(plot.geo_hi[d]))))
            centre[d] = {"below": plot.geo_lo[d] - 0.01 * w, "above": plot.geo_hi[d] + 0.01 * w,
                         "far_below": plot.geo_lo[d] - 50 * w, "far_above": plot.geo_hi[d] + 50 * w,
                         "hair_below": plot.geo_lo[d] - hair, "hair_above": plot.geo_hi[d] + hair}[pt["out"]]
            ctx.label("point:outside")
            try:
                got = qcall(lambda: query(fobj, centre))
                v.append(f"point {pi} {centre} outside the domain along axis {d} was answered with {got!r}")
            except Exception:
                pass
            continue
        lv = min(pt["lv"], L)
        if ratio4 and lv == 1:
            lv = 2 if L == 2 else 0
        boxes = plot.levels[lv]["boxes"]
        # boxes with an interior (extent >= 3 in every direction)
        cand = [b for b, (lo, hi) in enumerate(boxes) if all(hi[d] - lo[d] + 1 >= 3 for d in range(3))]
        if not cand:
            ctx.label("point:no-interior-box")
            continue
        b = cand[pt["box"] % len(cand)]
        lo, hi = boxes[b]
        cell = [lo[d] + 1 + pt["cell"][d] % (hi[d] - lo[d] - 1) for d in range(3)]
        if ratio4 and lv == 0 and L == 2:
            covered = any(all(lo2[d] >> 2 <= cell[d] <= hi2[d] >> 2 for d in range(3)) for lo2, hi2 in plot.levels[2]["boxes"])
        else:
            covered = bool(plot.covered_mask(lv, L)[tuple(cell)])
        if covered:
            ctx.label("point:covered-by-finer (skipped)")
            continue
        xyz = [plot.geo_lo[d] + (cell[d] + 0.5) * plot.dx[lv][d] for d in range(3)]
        data = plot.box_data(lv, b)
        stored = data[cell[0] - lo[0], cell[1] - lo[1], cell[2] - lo[2], fi]
        # per selected field, relative to that field's own magnitude in the box (fields may be many decades apart)
        big = np.array([float(np.max(np.abs(data[..., f]))) for f in fi])
        # a far-placed cell centre is representable only to a few ulp of |x|: that position error (in cells) times the
        # largest slope of the interpolant is added to the node-reproduction tolerance
        poserr = max(8 * np.finfo(float).eps * abs(xyz[d]) / plot.dx[lv][d] for d in range(3))
        tol = 1e-8 * big + poserr * 6.0 * big + 1e-300
        ctx.label(f"point:level{lv}", "fsel:" + pt["fsel"])
        if lv >= 1 or "origin!=0" in labs or "anisotropic" in labs or case["spec"].get("far"):
            ctx.nontrivial()
        if reuse and pi % 3 == 1:
            # history: a transient read failure at this very point (the level's directory is away for a moment); the
            # retry below, through the same selection object, must still return the stored value
            ctx.label("history:failed-read-then-retry")
            ldir = os.path.join("src", plot.level_dir(1 if (ratio4 and lv == 2) else lv))
            os.rename(ldir, ldir + ".away")
            try:
                qcall(lambda: query(fobj, xyz))
            except Exception:
                pass
            finally:
                os.rename(ldir + ".away", ldir)
        try:
            got = qcall(lambda: query(fobj, xyz))
        except Exception as e:
            if not either:
                v.append(f"point {pi} at the centre of level {lv} cell {cell} (box {b}, {xyz}) raised {type(e).__name__}: {e}")
            continue
        g = np.atleast_1d(np.asarray(got, dtype=float)).ravel()
        if g.shape != (len(fi),):
            v.append(f"point {pi}: returned {g.shape[0]} values for {len(fi)} selected fields ({pt['fsel']})")
            continue
        if not np.all(np.abs(g - stored) <= tol):
            v.append(f"point {pi} at the centre of level {lv} cell {cell} (box {b} {lo}..{hi}, xyz {xyz}): returned "
                     f"{g.tolist()} but the stored cell holds {stored.tolist()} (fields {fi}, selector {pt['fsel']})")
    return v
