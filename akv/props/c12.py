"""C12 - results do not depend on worker count, task order or serial/parallel mode."""
import hashlib
import itertools
import os
import shutil
import sys
import time

import numpy as np
from hypothesis import strategies as st

from .. import chkgen, plotgen, pools
from . import c11  # noqa: F401  (registers the "physical" payload used by the chef_ct entry)
from ..harness import _SETUP, qcall, tree_hash

ID = "C12"
LEVEL = "exploration"
BUDGET = {"quick": 640, "thorough": 16000}
TECHNIQUE = "schedule exploration with a schedule-owning pool (exhaustive per pool call for <= 4 tasks, four fixed permutations per larger call, Hypothesis-drawn joint schedules, eager / lazy) plus substituted CPU counts, and a real-process differential tier (worker counts, start methods, per-task delays) with a structural oracle for runs that would not end"
RULE = ("Hypothesis-generated case = entry point in {reader [] selections, reader .iter, level iteration, taste, "
        "colander, combine, chef (parallel vs serial), mandoline 2D, mandoline 3D array, mandoline 3D plotfile, pestle, "
        "whip, chk2plt} x small generated input (1-4 binary files / boxes per pool call where possible). Reference = "
        "identity schedule (and the serial mode where the tool has one). Then (i) for every pool call of the run with "
        "2..4 tasks, every execution order (and, for imap_unordered, every completion order) while the other calls "
        "keep submission order, and for calls with more tasks four fixed permutations (reversed, rotated, first / last two swapped); (ii) a drawn joint schedule for all calls with the eager / lazy flag; (iii) in 1 of 8 "
        "cases (quick) real multiprocessing / pathos pools with a drawn worker count in {1,2,3,4,8,16} and drawn "
        "per-task delays of 0-20 ms and a drawn start method (fork / spawn / forkserver), in a fresh child interpreter, twice in a row in the same process for chef (stale-worker history) and again after a chdir to other data under the same relative names; the child also reports a pool finalized by its own handler thread while the caller is inside next() of its result iterator (the deterministic precondition of the intermittent hang F58); (ii-b) the whole run again with os.cpu_count answering 1 and one of 2, 3, 5, 7, 16. Oracle: "
        "sha256 of every produced file and bit-exact returned values equal the reference. evaluations counts cases; "
        "`schedules` counts tool executions. Non-trivial = some schedule != identity on a call with >= 2 tasks.")
ASSUMPTIONS = ["the in-process pool is faithful to pool semantics: ordered results for map / imap, arbitrary completion order for imap_unordered, pickled arguments",
               "real OS scheduling is only sampled"]
MAX_SHARDS = 16

ENTRIES = ["select", "iter", "iterate", "taste", "colander", "combine", "chef", "mand2d", "mand3d", "mand3d_plt", "pestle",
           "whip", "chk2plt", "chef_ct"]
RECIPE = 'import numpy as np\n\ndef recipe(field_indexes, box_array):\n    """twice sq"""\n    a = box_array[..., field_indexes["temp"]]\n    return np.stack([a * 2.0, a * a], axis=-1)\n'


@st.composite
def cases(draw, tier="quick"):
    entry = os.environ.get("AKV_C12_ENTRY") or ENTRIES[draw(st.integers(0, 2 ** 16)) % len(ENTRIES)]          # (debug knob: one entry only)
    nd = 2 if entry == "mand2d" else 3
    spec = draw(plotgen.plot_specs(thin=True, ndims=nd, max_levels=2, max_cells=500, fields=["temp", "density", "Y(H2)", "volFrac"],
                                   payload_kinds=("random",), layouts=("scatter", "nonmono", "scatter", "nonmono", "single"), max_nb0=3))
    m = spec["mesh"]
    m["nb0"] = [max(n, 2) for n in m["nb0"]]        # several boxes, so that pool calls have several tasks
    m["m"] = min(m["m"], 2)
    if len(plotgen.build_mesh(m)[0]["boxes"]) < 2:
        m["m"] = 1                                  # a single level-0 box would give one-task pool calls only
    if entry == "chef_ct":
        # two Cantera-based cooks in a row at different pressures (history: stale worker state must not leak)
        from . import c11
        spec["fields"] = ["temp"] + [f"Y({x})" for x in c11.SPECIES] + ["density"]
        spec["payload"] = dict(kind="physical", seed=draw(st.integers(0, 999)), zero_frac=0.0)
        m["bf"] = 2
        m["nb0"] = [min(n, 2) for n in m["nb0"]]
    chk = None
    if entry == "chk2plt":
        chk = draw(chkgen.chk_specs(tier))
        chk["mesh"]["nlev"] = min(chk["mesh"]["nlev"], 2)
        chk["mesh"]["rects"] = chk["mesh"]["rects"][:chk["mesh"]["nlev"] - 1]
    code = st.lists(st.integers(0, 11), max_size=6)
    sched = dict(exec=[draw(code) for _ in range(6)], comp=[draw(code) for _ in range(6)], lazy=draw(st.booleans()))
    real = draw(st.integers(0, 2 ** 16)) % (8 if tier == "quick" else 4) == 1 or (entry == "chef_ct" and draw(st.booleans())) \
        or bool(os.environ.get("AKV_FORCE_REAL"))          # (debug knob: every case runs the real-pool tier)
    return dict(entry=entry, spec=spec, chk=chk, sched=sched, layout2=draw(plotgen.layouts()), normal=draw(st.integers(0, 2)),
                frac=draw(st.sampled_from([0.2, 0.3, 0.45, 0.55, 0.7])), real=real,
                workers=draw(st.sampled_from([1, 2, 3, 4, 8, 16])), delay_seed=draw(st.integers(0, 9999)),
                # start method of the real worker processes (only used by the real-pool tier)
                start=os.environ.get("AKV_FORCE_START") or ["fork", "spawn", "fork", "forkserver"][draw(st.integers(0, 2 ** 16)) % 4])


def compact(case):
    return dict(entry=case["entry"], mesh=case["spec"]["mesh"], sched=case["sched"], real=case["real"], workers=case["workers"])


# --------------------------------------------------------------------------- result digests

def digest(obj):
    h = hashlib.sha256()

    def feed(o):
        if isinstance(o, np.ndarray):
            h.update(str((o.shape, o.dtype.str)).encode())
            h.update(np.ascontiguousarray(o).tobytes())
        elif isinstance(o, dict):
            for k in sorted(o):
                h.update(repr(k).encode())
                feed(o[k])
        elif isinstance(o, (list, tuple)):
            h.update(b"[%d" % len(o))
            for x in o:
                feed(x)
        else:
            h.update(repr(o).encode())
    feed(obj)
    return h.hexdigest()


def run_entry(case, serial=False):
    """Runs the entry point once in the current directory; returns a digest of everything it produced / returned."""
    from amr_kitchen import PlotfileCooker
    e = case["entry"]
    for o in ("out", "out.npy", "out.npz"):
        if os.path.isdir(o):
            shutil.rmtree(o)
        elif os.path.exists(o):
            os.remove(o)
    if e in ("select", "iter", "iterate"):
        pck = PlotfileCooker("src")
        res = []
        for lv in range(pck.limit_level + 1):
            if e == "select":
                res.append(pck[["temp", "Y(H2)"]][lv][:])
                res.append(pck["density"][lv][list(range(len(pck.boxes[lv])))[::-1]])
            elif e == "iter":
                res.append(list(pck[1:3][lv].iter(slice(None))))
                res.append(list(pck["temp"][lv].iter(list(range(len(pck.boxes[lv])))[::-1])))
            else:
                got = list(pck[:][lv])
                res.append(sorted((a.shape, a.tobytes()) for a in got))
        return digest(res)
    if e == "taste":
        from amr_kitchen.taste import Taster
        res = [bool(Taster("src", nofail=True, verbose=0, boxes_coordinates=True)),
               bool(Taster("damaged", nofail=True, verbose=0)), bool(Taster("src", nofail=True, verbose=0, binary_data=True))]
        if os.path.isdir("damaged_last"):
            # failing mode, level limit by level limit: the defect reported (the first one in file and box order) is the same
            # whatever the workers, their number and the order of the tasks
            for lim in range(2):
                try:
                    Taster("damaged_last", verbose=0, limit_level=lim)
                    res.append("accepted")
                except Exception as ex:
                    res.append(f"{type(ex).__name__}: {ex}")
        if os.path.isdir("damaged_many"):
            try:
                Taster("damaged_many", verbose=0)
                res.append("accepted")
            except Exception as ex:
                res.append(f"{type(ex).__name__}: {ex}")       # the defect reported in failing mode
        return digest(res)
    if e == "colander":
        from amr_kitchen.colander import Colander
        Colander("src", output="out", variables=["Y(H2)", "temp"]).strain()
    elif e == "combine":
        from amr_kitchen.combine import combine
        combine(PlotfileCooker("src"), PlotfileCooker("src2"), pltout="out")
    elif e == "chef":
        from amr_kitchen.chef import Chef
        Chef("src", recipe="recipe_c12.py", outfile="out", serial=serial, kept_fields="density").cook()
    elif e == "chef_ct":
        from amr_kitchen.chef import Chef
        from . import c11
        hashes = []
        for pres in (1.0, 4.0):
            if os.path.isdir("out"):
                shutil.rmtree("out")
            Chef("src", recipe="SDi", species=["H2", "O2"], mech=c11.MECH, pressure=pres, outfile="out", serial=serial,
                 kept_fields="density").cook()
            hashes.append(tree_hash("out"))
            if pres == 1.0 and os.path.isdir("src_cut"):
                # a cook at yet another pressure that cannot succeed (truncated input), between the two good ones
                try:
                    Chef("src_cut", recipe="SDi", species=["H2", "O2"], mech=c11.MECH, pressure=9.0, outfile="out_cut", serial=serial,
                         kept_fields="density").cook()
                    hashes.append("the cook of the truncated copy returned normally")
                except Exception as ex:
                    hashes.append("refused")
                shutil.rmtree("out_cut", ignore_errors=True)
        return digest(hashes)
    elif e == "mand2d":
        from amr_kitchen.mandoline import Mandoline
        m = Mandoline("src", fields=["density", "grid_level", "temp"], serial=serial, verbose=0)      # (not in file order)
        return digest([m.slice(fformat="return"), m.slice(fformat="return")])      # one object, two calls (history)
    elif e in ("mand3d", "mand3d_plt"):
        from amr_kitchen.mandoline import Mandoline
        m = Mandoline("src", fields=["Y(H2)", "temp", "density"] + (["grid_level"] if e == "mand3d" else []), serial=serial, verbose=0)      # (not in file order)
        pos = case["_pos"]
        if e == "mand3d":
            return digest([m.slice(normal=case["normal"], pos=pos, fformat="return"), m.slice(normal=case["normal"], pos=pos, fformat="return")])
        m.slice(normal=case["normal"], pos=pos, fformat="plotfile", outfile="out_first")
        shutil.rmtree("out_first")
        m.slice(normal=case["normal"], pos=pos, fformat="plotfile", outfile="out")      # the second slice of one object
    elif e == "pestle":
        from amr_kitchen.pestle import volume_integral
        pck = PlotfileCooker("src", ghost=True)
        return digest([float(volume_integral(pck, "temp")), float(volume_integral(pck, "density", use_volfrac=True))])
    elif e == "whip":
        import amr_kitchen.whip.cli as whip
        old = sys.argv
        sys.argv = ["whip", "-v", "density", "-y", "-o", "out", "src"]      # not the first field: state set in the parent (field index, ...) must reach the workers under every start method
        try:
            whip.main()
        finally:
            sys.argv = old
        return tree_hash("out.npy")
    elif e == "chk2plt":
        c2p = sys.modules["amr_kitchen.chk2plt.chk2plt"]
        c2p.chk2plt("chk", species=chkgen.SPECIES_POOL[:case["chk"]["nspec"]], pltdir="out", species_reactions=True)
    return tree_hash("out")


# --------------------------------------------------------------------------- real pools with delays

def _delayed(packed):
    f, delay, arg = packed
    time.sleep(delay)
    return f(arg)


class DelayPool:
    workers = 4
    seed = 0
    calls = 0
    method = "fork"       # start method of the worker processes: fork (Linux default), spawn (macOS / Windows default), forkserver

    def __init__(self, *a, **k):
        import multiprocessing
        self.p = multiprocessing.get_context(DelayPool.method).Pool(processes=DelayPool.workers)

    def _pack(self, f, it):
        tasks = list(it)
        DelayPool.calls += 1
        r = np.random.Generator(np.random.PCG64([DelayPool.seed, DelayPool.calls]))
        d = r.choice([0.0, 0.002, 0.01, 0.02], size=max(1, len(tasks)))
        return [(f, float(d[i]), t) for i, t in enumerate(tasks)]

    def map(self, f, it, chunksize=None):
        return self.p.map(_delayed, self._pack(f, it), chunksize=1)

    def imap(self, f, it, chunksize=None):
        return self.p.imap(_delayed, self._pack(f, it), chunksize=1)

    def imap_unordered(self, f, it, chunksize=None):
        return self.p.imap_unordered(_delayed, self._pack(f, it), chunksize=1)

    def __enter__(self):
        return self

    def __exit__(self, *a):
        self.p.terminate()
        return False

    def close(self):
        self.p.close()

    def join(self):
        self.p.join()

    def terminate(self):
        self.p.terminate()

    # no __del__: result iterators keep the inner pool alive exactly as they do for a plain multiprocessing.Pool


class DelayPathos:
    """pathos ProcessingPool with a chosen node count and drawn per-task delays"""

    def __init__(self, *a, **k):
        self.p = _SETUP["real_pathos"](nodes=DelayPool.workers)

    def imap(self, f, it):
        tasks = list(it)
        DelayPool.calls += 1
        r = np.random.Generator(np.random.PCG64([DelayPool.seed, DelayPool.calls]))
        d = r.choice([0.0, 0.002, 0.01, 0.02], size=max(1, len(tasks)))
        return self.p.imap(_delayed, [(f, float(d[i]), t) for i, t in enumerate(tasks)])

    def close(self):
        self.p.close()

    def join(self):
        self.p.join()

    def clear(self):
        self.p.clear()

    def __getattr__(self, k):           # restart, terminate, map, ...: whatever else the code calls goes to the real pool
        return getattr(self.p, k)


class real_pools:
    def __init__(self, workers, seed, method="fork"):
        self.workers, self.seed, self.method = workers, seed, method

    def __enter__(self):
        import multiprocessing
        import importlib
        DelayPool.workers, DelayPool.seed, DelayPool.calls = self.workers, self.seed, 0
        DelayPool.method = self.method
        self.saved = (multiprocessing.Pool, importlib.import_module("amr_kitchen.chef.chef").Pool,
                      sys.modules["amr_kitchen.chk2plt.chk2plt"].Pool)
        # the machine "has" as many CPUs as the pool has workers (code that sizes batches from the CPU count sees it too)
        import os as _os
        self.saved_cpu = (_os.cpu_count, multiprocessing.cpu_count)
        _os.cpu_count = lambda: self.workers
        multiprocessing.cpu_count = lambda: self.workers
        multiprocessing.Pool = DelayPool
        importlib.import_module("amr_kitchen.chef.chef").Pool = DelayPathos
        sys.modules["amr_kitchen.chk2plt.chk2plt"].Pool = DelayPool
        return self

    def __exit__(self, *a):
        import multiprocessing
        import importlib
        multiprocessing.Pool, importlib.import_module("amr_kitchen.chef.chef").Pool, sys.modules["amr_kitchen.chk2plt.chk2plt"].Pool = self.saved
        import os as _os
        _os.cpu_count, multiprocessing.cpu_count = self.saved_cpu
        return False


# --------------------------------------------------------------------------- the check

def prepare(case, variant):
    """Writes the inputs of the entry point into the current directory (variant != 0: same mesh, other values)."""
    from .. import corrupt
    e = case["entry"]
    spec = dict(case["spec"])
    if variant:
        spec["payload"] = dict(spec["payload"], seed=int(spec["payload"].get("seed", 0)) + 7919 * variant)
    plot = plotgen.Plot(spec)
    plotgen.write(plot, "src")
    if e == "combine":
        s2 = dict(spec, fields=["phi", "banana"])
        if case["delay_seed"] % 2:           # same files and order (file-by-file mode) or an independent layout (box-by-box mode)
            s2["layout_override"] = case["layout2"]
        plotgen.write(plotgen.Plot(s2), "src2")
    if e == "taste":
        shutil.copytree("src", "damaged")
        # in the second directory the roles are swapped: "src" is the damaged one, "damaged" is intact
        corrupt.apply("src" if variant else "damaged",
                      dict(kind="fab_shift", lv=plot.nlev - 1, box=len(plot.levels[-1]["boxes"]) - 1, amt=8, dim=0, side=0))
    if e == "taste":
        # several defects, one per binary file of the finest level: which one is reported must not depend on the schedule
        shutil.copytree("damaged" if variant else "src", "damaged_many") if not os.path.isdir("damaged_many") else None
        lev = plot.levels[-1]
        seen = set()
        for b, f in enumerate(lev["files"]):
            if f not in seen and len(seen) < 3:
                seen.add(f)
                try:
                    corrupt.apply("damaged_many", dict(kind="fab_shift", lv=plot.nlev - 1, box=b, amt=8, dim=b % plot.ndims, side=0))
                except corrupt.NotApplicable:
                    pass
    if e == "taste":
        # the box stored last in every binary file of every level is damaged (visible to the header check only): work split
        # by box count and worker count must still reach the last box of each file
        shutil.copytree("damaged" if variant else "src", "damaged_last")
        for l in range(plot.nlev):
            for fi, bids in sorted(plot.disk_sequence(l).items()):
                try:
                    corrupt.apply("damaged_last", dict(kind="fab_shift", lv=l, box=bids[-1], amt=8, dim=0, side=0))
                except corrupt.NotApplicable:
                    pass
    if e == "chef":
        with open("recipe_c12.py", "w") as f:
            f.write(RECIPE)
    if e == "chef_ct":
        # a damaged copy whose cook is refused between the two good cooks (history: a failed run must not leave
        # worker state behind): first level-0 binary cut at the start of its last box, or inside that box's data
        shutil.copytree("src", "src_cut")
        f0 = os.path.join("src_cut", "Level_0", sorted(x for x in os.listdir(os.path.join("src_cut", "Level_0")) if x.startswith("Cell_D"))[0])
        fabs, _ = corrupt.scan_file(f0)
        os.truncate(f0, fabs[-1]["start"] if case["delay_seed"] % 2 else fabs[-1]["hend"] + 8)
    if e == "chk2plt":
        chkgen.write(chkgen.Checkpoint(dict(case["chk"], seed=case["chk"]["seed"] + variant)), "chk")
    if e.startswith("mand3d"):
        cn = case["normal"]
        n = plot.grid_size(0)[cn]
        case = dict(case, _pos=plot.geo_lo[cn] + (n // 2 - 0.5 + case["frac"]) * plot.dx[0][cn])
    return case


def check_case(case, ctx):
    ctx.fresh()
    e = case["entry"]
    case = prepare(case, 0)
    ctx.label("entry:" + e)
    what = f"(entry {e})"
    # reference: identity schedule
    s0 = pools.set_schedule(None)
    try:
        ref = qcall(run_entry, case)
    except Exception as ex:
        pools.set_schedule(None)
        return [f"{e} raised {type(ex).__name__}: {str(ex)[:200]} under the identity schedule"]
    log = list(s0.log)
    pools.set_schedule(None)
    ctx.counters["schedules"] += 1
    ctx.counters["pool_calls"] += len(log)
    v = []
    if e in ("chef", "chef_ct", "mand2d", "mand3d", "mand3d_plt"):
        try:
            if qcall(run_entry, case, True) != ref:
                v.append(f"parallel result differs from the serial mode {what}")
        except Exception as ex:
            v.append(f"serial mode raised {type(ex).__name__}: {ex} {what}")
        ctx.counters["schedules"] += 1

    def run_with(sc, desc):
        s = pools.set_schedule(sc)
        try:
            got = qcall(run_entry, case)
        except Exception as ex:
            return f"raised {type(ex).__name__}: {str(ex)[:200]} under {desc} {what}"
        finally:
            pools.set_schedule(None)
        ctx.counters["schedules"] += 1
        if s.nonidentity_calls():
            ctx.nontrivial()
        if got != ref:
            return f"result differs from the identity-schedule result under {desc}: pool log {s.log[:6]} {what}"
        return None

    # (i) exhaustive per call
    for ci, (kind, n, _, _) in enumerate(log):
        if n > 4:
            # too many orders to enumerate: reversed, rotated by one, first two swapped, last two swapped
            ctx.label(f"sampled-orders:{kind}:>4")
            for name, code in (("reversed", [n - 1 - j for j in range(n)]), ("rotated", [1] + [0] * (n - 1)),
                               ("first two swapped", [1]), ("last two swapped", [0] * (n - 2) + [1])):
                pad = [[]] * ci + [list(code)]
                variants = [dict(exec=pad, lazy=ci % 2 == 1)]
                if kind == "imap_unordered":
                    variants += [dict(comp=pad, lazy=False)]
                for sc in variants:
                    msg = run_with(sc, f"pool call #{ci} ({kind}, {n} tasks) order {name} lazy={sc.get('lazy')}")
                    if msg:
                        return v + [msg]
            continue
        if n < 2:
            continue
        ctx.label(f"exhaustive:{kind}:{n}")
        for code in itertools.product(*[range(n - j) for j in range(n)]):
            if not any(code):
                continue
            pad = [[]] * ci + [list(code)]
            variants = [dict(exec=pad, lazy=False), dict(exec=pad, lazy=True)]
            if kind == "imap_unordered":
                variants += [dict(comp=pad, lazy=False), dict(exec=pad, comp=pad, lazy=False)]
            for sc in variants:
                m = run_with(sc, f"pool call #{ci} ({kind}, {n} tasks) order code {list(code)} lazy={sc.get('lazy')}")
                if m:
                    return v + [m]
    # (ii) joint drawn schedule
    m = run_with(case["sched"], f"the drawn joint schedule {case['sched']}")
    if m:
        return v + [m]
    # (ii-b) another worker count: code that sizes its batches or chunks from the CPU count sees 1, 2, 3, 5, 7 or 16 CPUs
    import multiprocessing as _mp
    saved_cpu = (os.cpu_count, _mp.cpu_count)
    for ncpu in sorted({1, [2, 3, 5, 7, 16][case["delay_seed"] % 5]}):
        os.cpu_count = _mp.cpu_count = (lambda n=ncpu: n)
        try:
            m = run_with(case["sched"] if ncpu > 1 else None, f"a machine with {ncpu} CPU(s)")
        finally:
            os.cpu_count, _mp.cpu_count = saved_cpu
        ctx.label("cpu-count-varied")
        if m:
            return v + [m]
    # (iii) real pools, in a fresh interpreter whose very first pool is a real one (so that workers or pools the code
    #       keeps alive between calls are real processes too), then the same relative names in another directory
    if case["real"]:
        ctx.label(f"real-pools:{case['workers']}workers")
        ctx.label(f"real-pools:start={case.get('start', 'fork')}")
        here = os.getcwd()
        os.makedirs("elsewhere")
        os.chdir("elsewhere")
        try:
            case2 = prepare(case, 1)
            pools.set_schedule(None)
            ref2 = qcall(run_entry, case2)
        except Exception as ex:
            os.chdir(here)
            return v + [f"{e} raised {type(ex).__name__}: {str(ex)[:200]} on a second input"]
        os.chdir(here)
        import json
        import subprocess
        with open("real_case.json", "w") as fh:
            json.dump(dict(case=case, case2=case2, dir_a=here, dir_b=os.path.join(here, "elsewhere"), workers=case["workers"],
                           delay_seed=case["delay_seed"], reps=2 if e in ("chef", "chef_ct") else 1,
                           start=case.get("start", "fork")), fh)
        env = dict(os.environ, PYTHONPATH=os.path.dirname(os.path.dirname(os.path.dirname(os.path.abspath(__file__)))))
        try:
            pr = subprocess.run([sys.executable, "-m", "akv.props.c12", "real_case.json"], capture_output=True, text=True, env=env, timeout=150)
        except subprocess.TimeoutExpired:
            # a time budget hit is inconclusive, never a violation (and not a reason to distrust the other tiers)
            ctx.label("real-pool child timed out (inconclusive)")
            return v
        ctx.counters["schedules"] += 3
        try:
            out = json.loads(pr.stdout.strip().split("\n")[-1])
        except Exception:
            from ..harness import HarnessError
            raise HarnessError(f"real-pool child failed: {pr.stdout[-300:]} {pr.stderr[-600:]}")
        if out.get("hazard"):
            ctx.label("real-pools:pool-finalized-in-own-thread")
            v.append(f"with real pools ({case['workers']} workers) a process pool was released while its results were still being "
                     f"delivered and got finalized from its own handler thread ({out['hazard'][0]}, {len(out['hazard'])}x): "
                     f"the documented way for the run to block forever instead of ending {what}")
        for k, (got, want, desc) in enumerate(zip(out["a"], [ref] * len(out["a"]), [f"run {i + 1}" for i in range(len(out["a"]))])):
            if got != want:
                v.append(f"result with real pools ({case['workers']} workers, start method {case.get('start', 'fork')}, delays seed {case['delay_seed']}, {desc} in one process) "
                         f"differs from the identity-schedule result{': ' + got if got.startswith('raised') else ''} {what}")
                break
        if not v and out["b"] != ref2:
            v.append(f"after a chdir to a directory holding other data under the same relative names, the result with real pools "
                     f"({case['workers']} workers) is not that directory's result{': ' + out['b'] if out['b'].startswith('raised') else ''} {what}")
    return v


def _child_main(path):
    """Entry of the real-pool child process: real multiprocessing / pathos pools from the first call on."""
    import json
    from .. import harness
    harness.setup_repo(patch_pools=False)
    with open(path) as fh:
        job = json.load(fh)
    out = dict(a=[], b=None, hazard=[])
    # Structural oracle for "the run ends".  A multiprocessing pool whose last reference is the result iterator the caller is
    # still reading gets finalized by its own handler thread at the moment that thread stores the last result - while it holds
    # the iterator's lock, which the caller needs for its next item.  If the finalization blocks (it joins the pool's other
    # threads from inside one of them) the caller blocks forever: the hazard the multiprocessing documentation warns about,
    # observed on this code as an intermittent hang of level iteration (F58).  The condition is deterministic, the hang is
    # not, so the condition is what is reported - and only when a caller thread is inside next() of that iterator at that
    # moment (a pool abandoned together with its iterator, e.g. after validation raised, cannot block anyone: not reported).
    import multiprocessing.pool as _mpp
    import threading as _threading
    _orig_terminate = _mpp.Pool._terminate_pool.__func__
    _serving = _threading.local()

    def _wrap_setter(name):
        orig = getattr(_mpp.IMapIterator, name)

        def setter(self, *a):
            _serving.it = self
            try:
                return orig(self, *a)
            finally:
                _serving.it = None
        setattr(_mpp.IMapIterator, name, setter)
    _wrap_setter("_set")
    _wrap_setter("_set_length")

    def _watched_terminate(cls, taskqueue, inqueue, outqueue, pool, change_notifier, worker_handler, task_handler,
                           result_handler, cache):
        cur = _threading.current_thread()
        it = getattr(_serving, "it", None)
        if (cur is worker_handler or cur is task_handler or cur is result_handler) and it is not None:
            # is another thread inside next() of this very iterator right now (waiting for the lock this thread holds)?
            for ident, fr in sys._current_frames().items():
                if ident == cur.ident:
                    continue
                while fr is not None:
                    if fr.f_code is _mpp.IMapIterator.next.__code__ and fr.f_locals.get("self") is it:
                        out["hazard"].append(cur.name)
                        break
                    fr = fr.f_back
        return _orig_terminate(cls, taskqueue, inqueue, outqueue, pool, change_notifier, worker_handler, task_handler,
                               result_handler, cache)
    _mpp.Pool._terminate_pool = classmethod(_watched_terminate)
    with real_pools(job["workers"], job["delay_seed"], job.get("start", "fork")):
        os.chdir(job["dir_a"])
        for rep in range(job["reps"]):
            try:
                out["a"].append(qcall(run_entry, job["case"]))
            except Exception as ex:
                out["a"].append(f"raised {type(ex).__name__}: {str(ex)[:200]}")
        os.chdir(job["dir_b"])
        try:
            out["b"] = qcall(run_entry, job["case2"])
        except Exception as ex:
            out["b"] = f"raised {type(ex).__name__}: {str(ex)[:200]}"
    print(json.dumps(out))
    sys.stdout.flush()
    os._exit(0)


if __name__ == "__main__":
    _child_main(sys.argv[1])
