"""C20 - whatever taste accepts, the reader can read completely and consistently."""
import os
import re

import numpy as np
from hypothesis import strategies as st

from .. import corrupt, plotgen, refread
from ..harness import qcall, tree_files

ID = "C20"
LEVEL = "fault_enumeration"
BUDGET = {"quick": 7200, "thorough": 400000}
TECHNIQUE = "fault injection by generated edit sequences; differential between taste's verdict and a full read checked against an independent FAB scan"
RULE = ("Hypothesis-generated 2D/3D plotfiles x sequences of 0-3 edits drawn from the 27 C04 corruption kinds plus 9 "
        "kinds that tend to survive validation (offset moved inside the FAB prefix, whitespace in Cell_H / Header "
        "lines, FAB descriptor text of the first FAB, consistent swap of two boxes' index+FabOnDisk lines, swap of "
        "FabOnDisk lines only, duplicated entries, min/max table edits, payload bit flips, damage above the level "
        "limit) x level limit. If default validation (nofail) reports good, every box of every validated level is "
        "read through pck[:][lv][b] (+ one single-field read): no error, shape = level-header index range + all "
        "fields, values = payload of the FAB located independently in the recorded file by the header naming that "
        "One edit pads a FAB header line to 200-1100 bytes (later offsets moved accordingly). range. Non-trivial = accepted AND the tree differs from the pristine one inside the validated levels.")
ASSUMPTIONS = ["independent FAB location = byte search for the header text naming the index range in the recorded binary file"]


@st.composite
def cases(draw, tier="quick"):
    spec = draw(plotgen.plot_specs(thin=True, many=True, max_cells=1500 if tier == "quick" else 5000, max_fields=4,
                                   payload_kinds=("coded", "random", "special")))
    kinds = corrupt.SOFT * 5 + corrupt.HARD + ["fab_ncomp_consistent", "nfields_plus"] * 3
    ops = draw(st.lists(corrupt.op_strategy(kinds), min_size=1, max_size=3))
    limit = draw(st.one_of(st.none(), st.integers(0, spec["mesh"]["nlev"] - 1)))
    return dict(spec=spec, ops=ops, limit=limit, field=draw(st.integers(0, len(spec["fields"]) - 1)))


def compact(case):
    return dict(mesh=case["spec"]["mesh"], ops=case["ops"], limit=case["limit"])


def _find_fab(path, lo, hi, nf, nd):
    """payload of the FAB(s) in `path` whose header names lo..hi  -> list of arrays"""
    with open(path, "rb") as f:
        d = f.read()
    pat = (b"((" + ",".join(map(str, lo)).encode() + b") (" + ",".join(map(str, hi)).encode() + b") ("
           + b",".join([b"0"] * nd) + b")) " + str(nf).encode())
    out = []
    shp = [hi[k] - lo[k] + 1 for k in range(nd)] + [nf]
    n = int(np.prod(shp)) * 8
    # (blanks / tabs between the component count and the line end belong to the header line)
    for m in re.finditer(re.escape(pat) + rb"[ \t]*\n", d):
        raw = d[m.end():m.end() + n]
        if len(raw) == n:
            out.append(np.frombuffer(raw, "<f8").reshape(shp, order="F"))
    return out


def check_case(case, ctx):
    from amr_kitchen import PlotfileCooker
    from amr_kitchen.taste import Taster
    ctx.fresh()
    plot = plotgen.Plot(case["spec"])
    plotgen.write(plot, "src")
    ctx.label(*[x for x in plot.labels() if x in ("2D", "3D", "one-cell-thick-box", "scattered", "non-monotone", "many-fields(>12)")])
    limit = case["limit"]
    L = plot.nlev - 1 if limit is None else limit
    before = tree_files("src")
    applied = []
    inside = []
    for op in case["ops"]:
        try:
            site = corrupt.apply("src", op)
            applied.append(op["kind"])
            if site["lv"] <= L or op["kind"] == "ws_header":
                inside.append(op["kind"])
        except corrupt.NotApplicable:
            ctx.label("op-not-applicable")
    after = tree_files("src")
    validated = lambda rel: rel == "Header" or any(rel.startswith(f"Level_{l}/") for l in range(L + 1))
    changed = any(validated(k) and before.get(k) != after.get(k) for k in set(before) | set(after))
    try:
        ok = qcall(lambda: bool(Taster("src", limit_level=limit, nofail=True, verbose=0)))
    except Exception:
        ctx.label("taste-raised-in-nofail (C04's side)")
        return []
    if not ok:
        ctx.label("rejected")
        return []
    ctx.label("accepted")
    if changed:
        ctx.nontrivial()
        for k in inside:
            ctx.label("survivor:" + k)
    v = []
    what = f"(edits {applied}, limit {limit})"
    try:
        pck = qcall(PlotfileCooker, "src", limit_level=limit)
    except Exception as e:
        return [f"taste accepts but the reader cannot open the plotfile: {type(e).__name__}: {e} {what}"]
    nf = plot.nf
    nd = plot.ndims
    for lv in range(L + 1):
        try:
            ch = refread.read_cell_h(os.path.join("src", f"Level_{lv}", "Cell_H"))
            idx, fod = ch["idx"], ch["fod"]
        except Exception:
            ctx.label("level-header-only-readable-by-the-tool")
            idx = [([int(x) for x in i[0]], [int(x) for x in i[1]]) for i in pck.cells[lv]["indexes"]]
            fod = [(os.path.basename(f), o) for f, o in zip(pck.cells[lv]["files"], pck.cells[lv]["offsets"])]
        for b, (lo, hi) in enumerate(idx):
            try:
                got = qcall(lambda: pck[:][lv][b])
                one = qcall(lambda: pck[case["field"]][lv][b])
            except Exception as e:
                v.append(f"taste accepts but reading level {lv} box {b} raises {type(e).__name__}: {e} {what}")
                return v
            shp = tuple(hi[k] - lo[k] + 1 for k in range(nd)) + (nf,)
            if not isinstance(got, np.ndarray) or got.shape != shp:
                v.append(f"taste accepts but level {lv} box {b} reads with shape {getattr(got, 'shape', None)}, "
                         f"level header declares {shp} {what}")
                return v
            cands = _find_fab(os.path.join("src", f"Level_{lv}", fod[b][0]), lo, hi, nf, nd)
            if not cands:
                v.append(f"taste accepts but the binary file recorded for level {lv} box {b} holds no FAB naming "
                         f"{lo}..{hi} {what}")
                return v
            if not any(refread.same_bits(got, c) and refread.same_bits(one, c[..., case["field"]]) for c in cands):
                v.append(f"taste accepts but level {lv} box {b} does not read the values of the FAB naming {lo}..{hi} "
                         f"in {fod[b][0]} {what}")
                return v
    return v
