"""C03 - taste accepts every well-formed plotfile under every option combination."""
import itertools

import numpy as np

from hypothesis import strategies as st

from .. import plotgen
from ..harness import qcall
from ..harness import verbosity as harness_verbosity

ID = "C03"
LEVEL = "exploration"
BUDGET = {"quick": 480, "thorough": 48000}
TECHNIQUE = "property-based testing: generated plotfiles, exhaustive inner enumeration of option sets x limits x modes"
RULE = ("Hypothesis-generated 2D/3D plotfiles (as C01: scattered / non-monotone layouts, special floats, non-zero "
        "origin, anisotropic, 1-3 levels, both header styles) and, per plotfile, exhaustively all 2^4 option sets "
        "(binary_headers, binary_shape, binary_data, boxes_coordinates) x every limit_level in {None, 0..finest} x "
        "{fail, nofail}: validation must raise nothing and evaluate true. evaluations counts plotfiles; "
        "`constructions` in classes counts Taster constructions; plus the command line with 6 flag sets. "
        "A third of the constructions pass the level limit as a numpy integer. (F3, which made 6 option sets raise, is repaired; the exclusion hook stays for any future listed finding.) Non-trivial = >= 2 levels or a scattered / "
        "non-monotone layout (every plotfile runs all non-default option sets).")
ASSUMPTIONS = ["in-process pool, identity schedule (C12 varies it)"]

OPTS = list(itertools.product([True, False], repeat=4))   # headers, shape, data, coords


def f3_region(o):
    return o[2] and not (o[0] and o[1])


@st.composite
def cases(draw, tier="quick"):
    return dict(spec=draw(plotgen.plot_specs(thin=True, many=True, level_prefix=True, max_cells=3000 if tier == "quick" else 10000, max_fields=5)),
                via_code=draw(st.integers(0, 2 ** 16)))


def compact(case):
    return dict(mesh=case["spec"]["mesh"], geom=case["spec"]["geom"], fields=case["spec"]["fields"],
                payload=case["spec"]["payload"])


def check_case(case, ctx):
    from amr_kitchen.taste import Taster
    ctx.fresh()
    plot = plotgen.Plot(case["spec"])
    from ..harness import VIAS, place_plotfile
    via = VIAS[case.get("via_code", 0) % len(VIAS)]
    src = place_plotfile(lambda pth: plotgen.write(plot, pth), via)
    if via:
        ctx.label("path:" + via)
    labs = plot.labels()
    ctx.label(*labs)
    ctx.nontrivial(plot.nlev >= 2 or "scattered" in labs or "non-monotone" in labs)
    only = case.get("only_opts")
    v = []
    for oi, o in enumerate(OPTS):
        if only is not None and list(o) != list(only):
            continue
        if f3_region(o) and ctx.is_open("F3"):
            ctx.exclude("F3", (plot.nlev + 1) * 2)
            continue
        kw = dict(binary_headers=o[0], binary_shape=o[1], binary_data=o[2], boxes_coordinates=o[3], verbose=harness_verbosity(case))
        for limit in [None] + list(range(plot.nlev)):
            for nofail in (False, True):
                ctx.counters["constructions"] += 1
                try:
                    # (a limit computed with numpy arrives as a numpy integer)
                    lim_arg = limit if limit is None or (oi + limit) % 3 else [np.int64, np.int32, np.uint8][(oi + limit) % 9 // 3](limit)
                    ok = qcall(lambda: bool(Taster(src, limit_level=lim_arg, nofail=nofail, **kw)))
                except Exception as e:
                    v.append(f"options headers={o[0]} shape={o[1]} data={o[2]} coords={o[3]} limit={lim_arg!r} "
                             f"nofail={nofail}: raised {type(e).__name__}: {str(e)[:200]}")
                    break
                if not ok:
                    v.append(f"options headers={o[0]} shape={o[1]} data={o[2]} coords={o[3]} limit={lim_arg!r} "
                             f"nofail={nofail}: a well-formed plotfile is reported bad")
                    break
            else:
                continue
            break
        if len(v) >= 3:
            break
    # the command line entry point (failing mode raises on a bad plotfile; here it must simply return)
    if only is None:
        import amr_kitchen.taste.cli as cli
        from . import common
        for flags in ([], ["-bc"], ["-nh"], ["-ns", "-bc"], ["-nf"], ["-bd"]):
            for limit in [None, 0]:
                argv = ["taste", src, "-v", "0"] + flags + (["-l", str(limit)] if limit is not None else [])
                ctx.counters["cli_runs"] += 1
                try:
                    common.run_main(cli.main, argv)
                except Exception as e:
                    v.append(f"taste command line {argv[1:]} failed on a well-formed plotfile: {type(e).__name__}: {str(e)[:200]}")
                    break
    return v
