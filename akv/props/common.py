"""Oracles shared by several properties: taste verdict, in-memory content model, comparisons."""
import numpy as np

from .. import refread
from ..harness import qcall


def taste_accepts(path, coords=True, limit=None):
    """[] if default validation (+ box coordinates) reports the directory good, else messages."""
    from amr_kitchen.taste import Taster
    try:
        ok = qcall(lambda: bool(Taster(path, limit_level=limit, nofail=True, verbose=0,
                                       boxes_coordinates=coords)))
    except Exception as e:
        return [f"taste raised on {path} in nofail mode: {type(e).__name__}: {e}"]
    if not ok:
        why = ""
        try:
            qcall(lambda: Taster(path, limit_level=limit, verbose=0, boxes_coordinates=coords))
        except Exception as e:
            why = f": {type(e).__name__}: {str(e)[:300]}"
        return [f"taste rejects {path}{why}"]
    return []


def _key(lo, hi):
    return (tuple(lo), tuple(hi))


class Model:
    """In-memory contents of a plotfile: fields, geometry and {(lo, hi): box} per level."""

    def __init__(self, fields, ndims, time, geo_lo, geo_hi, dx, grid_sizes, levels):
        self.fields = list(fields)
        self.ndims = ndims
        self.time = time
        self.geo_lo = list(geo_lo)
        self.geo_hi = list(geo_hi)
        self.dx = [list(x) for x in dx]
        self.grid_sizes = [list(x) for x in grid_sizes]
        self.levels = levels       # list of {key: dict(phys, data, mins, maxs)}
        self.coord_sys = None      # coordinate system line of the Header (part of the geometry), when known

    @classmethod
    def from_ref(cls, ref):
        levels = []
        for lev in ref["levels"]:
            d = {}
            for b, (lo, hi) in enumerate(lev["idx"]):
                d[_key(lo, hi)] = dict(phys=lev["phys"][b], data=lev["data"][b],
                                       mins=None if lev["mins"] is None else list(lev["mins"][b]),
                                       maxs=None if lev["maxs"] is None else list(lev["maxs"][b]))
            levels.append(d)
        m = cls(ref["fields"], ref["ndims"], ref["time"], ref["geo_lo"], ref["geo_hi"],
                ref["dx"], ref["grid_sizes"], levels)
        m.coord_sys = ref.get("coord_sys", "").strip() or None
        return m

    def select(self, fi, L=None):
        """filter / reorder fields, truncate levels"""
        L = len(self.levels) - 1 if L is None else L
        levels = []
        for lev in self.levels[:L + 1]:
            levels.append({k: dict(phys=b["phys"], data=b["data"][..., fi],
                                   mins=None if b["mins"] is None else [b["mins"][i] for i in fi],
                                   maxs=None if b["maxs"] is None else [b["maxs"][i] for i in fi])
                           for k, b in lev.items()})
        m = Model([self.fields[i] for i in fi], self.ndims, self.time, self.geo_lo, self.geo_hi,
                  self.dx[:L + 1], self.grid_sizes[:L + 1], levels)
        m.coord_sys = self.coord_sys
        return m

    def concat(self, other, fi1, fi2):
        """fields fi1 of self followed by fields fi2 of other, box by box (same index range)"""
        a = self.select(fi1)
        b = other.select(fi2)
        levels = []
        for la, lb in zip(a.levels, b.levels):
            d = {}
            for k, ba in la.items():
                bb = lb[k]
                d[k] = dict(phys=ba["phys"], data=np.concatenate([ba["data"], bb["data"]], axis=-1),
                            mins=None if ba["mins"] is None or bb["mins"] is None else ba["mins"] + bb["mins"],
                            maxs=None if ba["maxs"] is None or bb["maxs"] is None else ba["maxs"] + bb["maxs"])
            levels.append(d)
        m = Model(a.fields + b.fields, self.ndims, self.time, self.geo_lo, self.geo_hi, self.dx,
                  self.grid_sizes, levels)
        m.coord_sys = self.coord_sys
        return m

    def with_true_minmax(self):
        for lev in self.levels:
            for b in lev.values():
                d = b["data"].reshape(-1, b["data"].shape[-1])
                with np.errstate(invalid="ignore"):
                    b["mins"] = list(np.min(d, axis=0))
                    b["maxs"] = list(np.max(d, axis=0))
        return self


def compare_model(model, out, fields_as="ordered", minmax="rows", rtol_minmax=0.0, time=True, computed=()):
    """Compare an expected Model with the reference read of a written plotfile.

    fields_as: 'ordered' -> same names in the same order; 'set' -> same names, any order (components
    are then matched by name).  minmax: 'rows' compares header rows with model rows, None skips.
    """
    v = []
    if fields_as == "ordered":
        if out["fields"] != model.fields:
            return [f"fields {out['fields']} != expected {model.fields}"]
        perm = list(range(len(model.fields)))
    else:
        if sorted(out["fields"]) != sorted(model.fields) or len(set(out["fields"])) != len(out["fields"]):
            return [f"field names {out['fields']} != expected (any order) {model.fields}"]
        perm = [out["fields"].index(n) for n in model.fields]     # model component i is output component perm[i]
    if out["ndims"] != model.ndims:
        v.append(f"ndims {out['ndims']} != {model.ndims}")
    if time and not refread.float_rows_equal([out["time"]], [model.time]):
        v.append(f"time {out['time']!r} != {model.time!r}")
    if model.coord_sys is not None and out.get("coord_sys", "").strip() != model.coord_sys:
        v.append(f"coordinate system line {out.get('coord_sys')!r} != input's {model.coord_sys!r}")
    if out["geo_lo"] != model.geo_lo or out["geo_hi"] != model.geo_hi:
        v.append(f"domain bounds {out['geo_lo']}..{out['geo_hi']} != {model.geo_lo}..{model.geo_hi}")
    if out["max_level"] != len(model.levels) - 1:
        v.append(f"finest level {out['max_level']} != expected {len(model.levels) - 1}")
        return v
    # format well-formedness: one refinement ratio per finer level at least (AMReX writes exactly that many or more)
    if len(out["factors"]) < out["max_level"] or any(f != "2" for f in out["factors"]):
        v.append(f"refinement-ratio line {out['factors']} does not give the ratio 2 for each of the {out['max_level']} finer levels")
    for l, mlev in enumerate(model.levels):
        olev = out["levels"][l]
        if out["dx"][l] != model.dx[l]:
            v.append(f"level {l}: cell size {out['dx'][l]} != {model.dx[l]}")
        if out["grid_sizes"][l] != model.grid_sizes[l]:
            v.append(f"level {l}: grid size {out['grid_sizes'][l]} != {model.grid_sizes[l]}")
        if time and not refread.float_rows_equal([olev["time"]], [model.time]):
            v.append(f"level {l}: level time {olev['time']!r} != {model.time!r}")
        keys = [_key(lo, hi) for lo, hi in olev["idx"]]
        if sorted(keys) != sorted(mlev.keys()):
            v.append(f"level {l}: boxes differ: got {keys[:4]}... expected {list(mlev)[:4]}...")
            continue
        for b, k in enumerate(keys):
            exp = mlev[k]
            if olev["phys"][b] != exp["phys"]:
                v.append(f"level {l} box {k}: physical bounds {olev['phys'][b]} != {exp['phys']}")
                break
            got = olev["data"][b][..., perm]
            if computed:
                # components computed by a recipe: bit-exact up to the payload of NaNs; copied components: bit-exact
                cm = np.array([n in computed for n in model.fields])
                same = refread.same_bits(got[..., ~cm], exp["data"][..., ~cm]) and refread.same_values(got[..., cm], exp["data"][..., cm])
            else:
                same = refread.same_bits(got, exp["data"])
            if not same:
                bad = np.argwhere(refread.bits(got) != refread.bits(exp["data"])) if got.shape == exp["data"].shape else []
                where = f" first differing cell/component {tuple(bad[0])}: got {got[tuple(bad[0])]!r} expected {exp['data'][tuple(bad[0])]!r}" if len(bad) else f" shapes {got.shape} vs {exp['data'].shape}"
                v.append(f"level {l} box {k}: data differs from the source box with the same index range;{where}")
                break
            if minmax == "rows":
                if olev["mins"] is None or b >= len(olev["mins"]):
                    v.append(f"level {l}: min/max tables unreadable or short")
                    break
                gm = [olev["mins"][b][i] for i in perm] if len(olev["mins"][b]) == len(perm) else olev["mins"][b]
                gx = [olev["maxs"][b][i] for i in perm] if len(olev["maxs"][b]) == len(perm) else olev["maxs"][b]
                if not _rows_close(gm, exp["mins"], rtol_minmax) or not _rows_close(gx, exp["maxs"], rtol_minmax):
                    v.append(f"level {l} box {k}: min/max rows {gm} / {gx} != expected {exp['mins']} / {exp['maxs']}")
                    break
    return v


def _rows_close(a, b, rtol):
    a = np.asarray(a, dtype=float)
    b = np.asarray(b, dtype=float)
    if a.shape != b.shape:
        return False
    if rtol == 0.0:
        return refread.float_rows_equal(a, b)
    with np.errstate(invalid="ignore"):
        return bool(np.all((a == b) | (np.isnan(a) & np.isnan(b)) | (np.abs(a - b) <= rtol * np.maximum(np.abs(a), np.abs(b)))))


def read_output(path):
    """Reference read of a tool output -> (ref, messages)."""
    try:
        return refread.read_plotfile(path), []
    except Exception as e:
        return None, [f"independent reader cannot read {path}: {type(e).__name__}: {str(e)[:300]}"]


def compare_output_to_model(src_ref, outpath, kept_names, fi, L):
    out, v = read_output(outpath)
    if out is None:
        return v
    model = Model.from_ref(src_ref).select(fi, L)
    assert model.fields == kept_names
    return compare_model(model, out)


def check_spec_roundtrip(plot, ref):
    """Harness self-check: the reference reader sees exactly what the generator wrote."""
    from ..harness import HarnessError
    if ref["fields"] != plot.fields or ref["max_level"] != plot.nlev - 1:
        raise HarnessError("reference reader disagrees with the generator on fields/levels")
    for l, lev in enumerate(ref["levels"]):
        if [(list(lo), list(hi)) for lo, hi in lev["idx"]] != [(list(lo), list(hi)) for lo, hi in plot.levels[l]["boxes"]]:
            raise HarnessError(f"reference reader disagrees with the generator on level {l} boxes")
        for b in range(len(lev["idx"])):
            if not refread.same_bits(lev["data"][b], plot.box_data(l, b)):
                raise HarnessError(f"reference reader disagrees with the generator on level {l} box {b} data")


def run_main(main, argv):
    """Call a console entry point in-process with the given argv; a non-zero exit status becomes an exception."""
    import sys
    old = sys.argv
    sys.argv = list(argv)
    try:
        qcall(main)
    except SystemExit as e:
        if e.code not in (None, 0):
            raise RuntimeError(f"exit status {e.code}")
    finally:
        sys.argv = old
