"""C08 - mandoline 2D flattening equals the finest-level covering grid exactly."""
import numpy as np
from hypothesis import strategies as st

from .. import plotgen, pools, refread
from ..harness import POISONS, poisoned_empty, qcall
from ..harness import verbosity as harness_verbosity

ID = "C08"
LEVEL = "exploration"
BUDGET = {"quick": 3600, "thorough": 400000}
TECHNIQUE = "property-based testing: covering grid from the generator, bit-exact; poisoned numpy.empty differential; serial vs scheduled pool"
RULE = ("Hypothesis-generated 2D plotfiles (rectangular domains with >= 4 cells per direction, non-zero origin, "
        "non-square boxes, 1-3 nested levels, any binary layout, special-float payloads) x field list (names in any "
        "order, 'grid_level', 'all') x level limit; each run 4 times (2 poison values for numpy.empty x "
        "{serial, schedule-owning pool with a drawn task order}). out[name].T must be bit-identical to the covering "
        "grid at the limit level, grid_level.T the level map, x / y the cell centres (1e-12 rel.), all four runs "
        "bit-identical and free of poison; one object flattening three times answers like a fresh one and never writes into arrays it returned earlier (edited by the caller in between). Non-trivial = >= 2 levels or nx != ny or non-square boxes.")
ASSUMPTIONS = ["domains have >= 4 cells per direction at the selected level (format_array_output indexes x_grid[2])"]


def bump_mesh(spec):
    """mandoline's array output needs >= 3 grid points per in-plane direction"""
    m = spec["mesh"]
    m["nb0"] = [max(n, 2 if m["bf"] >= 2 else 4) if m["bf"] * n < 4 else n for n in m["nb0"]]
    return spec


@st.composite
def cases(draw, tier="quick"):
    spec = bump_mesh(draw(plotgen.plot_specs(thin=True, level_prefix=True, ndims=2, max_cells=3000 if tier == "quick" else 12000, max_fields=5,
                                             payload_kinds=("special", "coded", "random"))))
    nf = len(spec["fields"])
    mode = draw(st.sampled_from(["names", "names", "names+grid", "grid", "all"]))
    k = draw(st.lists(st.integers(0, nf - 1), min_size=1, max_size=nf, unique=True))
    limit = draw(st.one_of(st.none(), st.integers(0, spec["mesh"]["nlev"] - 1)))
    sched = dict(exec=[draw(st.lists(st.integers(0, 7), max_size=8)) for _ in range(spec["mesh"]["nlev"])])
    return dict(spec=spec, mode=mode, fields=k, limit=limit, sched=sched, gridpos=draw(st.integers(0, nf)),
                cli=draw(st.sampled_from([False, False, True])))


def compact(case):
    return dict(mesh=case["spec"]["mesh"], geom=case["spec"]["geom"], mode=case["mode"], fields=case["fields"],
                limit=case["limit"], sched=case["sched"])


def field_request(case, names):
    mode = case["mode"]
    if mode == "all":
        return ["all"], list(names), True
    if mode == "grid":
        return ["grid_level"], [], True
    req = [names[i] for i in case["fields"]]
    if mode == "names+grid":
        req.insert(min(case["gridpos"], len(req)), "grid_level")
        return req, [n for n in req if n != "grid_level"], True
    return req, list(req), False


def check_case(case, ctx):
    from amr_kitchen.mandoline import Mandoline
    ctx.fresh()
    plot = plotgen.Plot(case["spec"])
    from ..harness import VIAS, place_plotfile
    import zlib as _z, json as _j
    via = VIAS[_z.crc32(_j.dumps(case["spec"]["mesh"], sort_keys=True).encode()) % len(VIAS)]
    src = place_plotfile(lambda pth: plotgen.write(plot, pth), via)
    if via:
        ctx.label("path:" + via)
    labs = plot.labels()
    ctx.label(*labs, "mode:" + case["mode"])
    limit = case["limit"]
    L = plot.nlev - 1 if limit is None else limit
    nonsquare = any(len(set(plot.box_shape(l, b))) > 1 for l in range(plot.nlev) for b in range(len(plot.levels[l]["boxes"])))
    ctx.nontrivial(plot.nlev >= 2 or len(set(plot.n0)) > 1 or nonsquare)
    req, out_names, do_grid = field_request(case, plot.fields)
    runs = {}
    for pv in POISONS:
        for serial in (True, False):
            pools.set_schedule(case["sched"] if not serial else None)
            try:
                with poisoned_empty(pv):
                    m = qcall(Mandoline, src, fields=list(req), limit_level=limit, serial=serial, verbose=harness_verbosity(case))
                    runs[(pv, serial)] = qcall(m.slice, fformat="return")
            except Exception as e:
                return [f"mandoline raised {type(e).__name__}: {e} (serial={serial})"]
            finally:
                pools.set_schedule(None)
    v = []
    ref_out = runs[(POISONS[0], True)]
    if not isinstance(ref_out, dict):
        return [f"slice(fformat='return') returned {type(ref_out).__name__}"]
    # history: one object flattening a second and third time (serial and pool) returns what a fresh object returns
    for serial in (True, False):
        try:
            with poisoned_empty(POISONS[0]):
                m = qcall(Mandoline, src, fields=list(req), limit_level=limit, serial=serial, verbose=harness_verbosity(case))
                first = qcall(m.slice, fformat="return")
                # the caller owns what it was given: editing the returned arrays in place must not change later results
                for key, arr in first.items():
                    if isinstance(arr, np.ndarray) and arr.dtype.kind == "f" and arr.flags.writeable:
                        arr *= 100.0
                        arr -= 7.0
                edited = {k: np.array(a, copy=True) for k, a in first.items() if isinstance(a, np.ndarray)}
                qcall(m.slice, fformat="return")
                again = qcall(m.slice, fformat="return")
            # ... and the arrays the caller was given (and edited) are the caller's: later calls must not write into them
            for key, was in edited.items():
                now = np.asarray(first[key])
                if now.shape != was.shape or not refread.same_bits(now.astype("<f8"), was.astype("<f8")):
                    v.append(f"{key}: the arrays returned by an earlier flattening (edited by the caller since) were overwritten when the same "
                             f"Mandoline object ran again: a returned result does not belong to the caller")
                    break
            for name in out_names + (["grid_level"] if do_grid else []) + ["x", "y"]:
                a, b = np.asarray(ref_out.get(name)), np.asarray(again.get(name))
                if a.shape != b.shape or not refread.same_bits(a.astype("<f8"), b.astype("<f8")):
                    v.append(f"{name}: the third flattening by one Mandoline object (serial={serial}) differs from a fresh object's")
                    break
        except Exception as e:
            v.append(f"re-using one Mandoline object (serial={serial}) raised {type(e).__name__}: {e}")
    cov = plot.covering(L)
    lmap = plot.level_map(L)
    if case.get("cli"):
        # the command line entry point, array format: the saved .npz must hold the same arrays
        import amr_kitchen.mandoline.cli as cli
        from . import common
        ctx.label("cli")
        argv = ["mandoline", src, "-f", "array", "-o", "cli_out", "-V", "0", "-v"] + list(req) + (["-L", str(limit)] if limit is not None else [])
        try:
            common.run_main(cli.main, argv)
            with np.load("cli_out.npz") as z:
                saved = {k: z[k] for k in z.files}
            for name in out_names + (["grid_level"] if do_grid else []) + ["x", "y"]:
                if name not in saved or not refread.same_bits(np.asarray(saved[name], dtype="<f8"), np.asarray(ref_out[name], dtype="<f8")):
                    v.append(f"{name}: array saved by the command line differs from the returned array")
        except Exception as e:
            v.append(f"mandoline command line raised {type(e).__name__}: {e} (argv {argv})")
    for i, name in enumerate(out_names):
        if name not in ref_out:
            v.append(f"field {name} missing from the output ({sorted(ref_out)})")
            continue
        exp = cov[..., plot.fields.index(name)]
        got = np.asarray(ref_out[name])
        if got.T.shape != exp.shape or not refread.same_bits(np.ascontiguousarray(got.T), exp):
            v.append(f"{name}: output.T (shape {got.T.shape}) is not the covering grid at level {L} (shape {exp.shape})")
    if do_grid:
        g = np.asarray(ref_out.get("grid_level"))
        if g.ndim != 2 or g.T.shape != lmap.shape or not np.array_equal(g.T, lmap.astype(float)):
            v.append(f"grid_level is not the level map at limit {L}")
    for key, d in (("x", 0), ("y", 1)):
        c = plot.centres(L, d)
        got = np.asarray(ref_out.get(key))
        scale = max(abs(plot.geo_lo[d]), abs(plot.geo_hi[d]))
        if got.shape != c.shape or not np.all(np.abs(got - c) <= 1e-12 * scale):
            v.append(f"{key} coordinates are not the cell centres of level {L}")
    for k, r in runs.items():
        for name in out_names + (["grid_level"] if do_grid else []):
            a, b = np.asarray(ref_out.get(name)), np.asarray(r.get(name))
            if a.shape != b.shape or not refread.same_bits(a.astype("<f8"), b.astype("<f8")):
                v.append(f"{name}: result depends on uninitialised memory or on serial/parallel mode "
                         f"(poison={k[0]}, serial={k[1]} differs from the reference run)")
                break
            if np.any(b == k[0]):
                v.append(f"{name}: output contains uninitialised memory (poison {k[0]})")
                break
    return v
