"""C11 - chef writes recipe(box) under the right names with true min/max."""
import os

import numpy as np
from hypothesis import strategies as st

from .. import plotgen, pools, refread
from ..harness import REPO, qcall
from . import common

ID = "C11"
LEVEL = "exploration"
BUDGET = {"quick": 2160, "thorough": 110000}
TECHNIQUE = "property-based testing: generated user recipes re-evaluated on the generator's data (bit-exact), built-in recipes against a per-cell Cantera evaluation, name->component matching, true extrema"
RULE = ("Hypothesis-generated 3D plotfiles (1-3 levels, any binary layout) x recipe x kept-field list (None, names in "
        "any order, unknown names) x {serial, schedule-owning pool with a drawn task order}. Recipes: (a) generated "
        "user recipe files from a small grammar of numpy expressions over named fields (1..3 components, with / "
        "without docstring, also passed as a callable) - oracle: the same function on the generator's box data, "
        "bit-exact; (b) built-ins HRR, ENT, SRi, SDi, RRi and 3-argument user recipes with test_assets/drm19.yaml on "
        "plotfiles holding temp + the 21 mass fractions (+ extras) with a physical payload (some with T = 0 / Y = 0 "
        "cells; one multi-component built-in in five lists every species / reaction of the mechanism in a permuted order) - oracle: the Cantera property cell by cell with a plain ct.Solution (1e-10 of the column magnitude). "
        "Always: taste accepts; mesh = input mesh; kept fields bit-identical; each name matched to its own component; "
        "min/max rows == extrema of the written data. Non-trivial = non-monotone / scattered layout, or kept list "
        "non-empty, or multi-component recipe, or parallel mode.")
ASSUMPTIONS = ["built-in recipes exercised with the one mechanism shipped in test_assets (drm19)", "order of kept vs new components is not asserted"]

MECH = os.path.join(REPO, "test_assets", "drm19.yaml")
EXPRS = ["a * 2.0 + b", "a * b", "np.abs(a) + 1.0", "np.where(a > b, a, b)", "a", "a - b * c", "np.sqrt(np.abs(a * c)) - b",
         "a * 0.0 + 7.25"]
BUILTIN_NAMES = {"HRR": "heat_release_rate", "ENT": "enthalpy_mass", "SRi": "net_production_rates",
                 "SDi": "mix_diff_coeffs_mass", "RRi": "net_rates_of_progress"}
_CT = {}


def gas():
    if "gas" not in _CT:
        import cantera as ct
        _CT["gas"] = ct.Solution(MECH)
        _CT["species"] = list(_CT["gas"].species_names)
        _CT["atm"] = ct.one_atm
    return _CT["gas"]


SPECIES = ["H2", "H", "O", "O2", "OH", "H2O", "HO2", "CH2", "CH2(S)", "CH3", "CH4", "CO", "CO2", "HCO", "CH2O",
           "CH3O", "C2H4", "C2H5", "C2H6", "N2", "AR"]


def _payload_physical(plot, l, lo, hi):
    shp = tuple(hi[d] - lo[d] + 1 for d in range(3))
    r = plotgen._box_rng(plot, l, lo)
    cols = []
    zero = r.uniform(size=shp) < plot.payload.get("zero_frac", 0.0)
    ysum = None
    ys = {}
    w = r.uniform(0.0, 1.0, size=shp + (len(SPECIES),)) ** 3
    w[..., SPECIES.index("N2")] += 2.0
    w /= w.sum(axis=-1, keepdims=True)
    for f in plot.fields:
        if f == "temp":
            c = r.uniform(300.0, 2500.0, size=shp)
            c[zero] = 0.0
        elif f.startswith("Y("):
            c = w[..., SPECIES.index(f[2:-1])].copy()
            c[zero] = 0.0
        else:
            c = r.uniform(-5.0, 5.0, size=shp)
        cols.append(c)
    return np.stack(cols, axis=-1)


plotgen.PAYLOADS["physical"] = _payload_physical


@st.composite
def cases(draw, tier="quick"):
    kinds = ["user", "builtin", "user", "callable", "builtin", "sarray", "user", "builtin"]
    kind = kinds[draw(st.integers(0, 2 ** 16)) % len(kinds)]
    if kind in ("user", "callable"):
        spec = draw(plotgen.plot_specs(thin=True, level_prefix=True, ndims=3, max_cells=2000 if tier == "quick" else 6000, min_fields=2, max_fields=5,
                                       payload_kinds=("random", "coded", "special")))
        nf = len(spec["fields"])
        ncomp = draw(st.sampled_from([1, 1, 2, 3]))
        recipe = dict(kind=kind, exprs=[draw(st.integers(0, len(EXPRS) - 1)) for _ in range(ncomp)],
                      vars=[draw(st.integers(0, nf - 1)) for _ in range(3)],
                      doc=draw(st.booleans()) or ncomp > 1, stack=draw(st.sampled_from(["stack", "moveaxis"])),
                      # what the recipe returns: the float64 expressions, a boolean mask, integer flags or single precision
                      cast=[None, None, None, "bool", "int64", "float32"][draw(st.integers(0, 2 ** 16)) % 6])
    else:
        pre = draw(st.sampled_from([[], ["density"], ["x_velocity", "rhoh"]]))
        post = draw(st.sampled_from([[], ["mag_vort"], ["volFrac", "phi"]]))
        tpos = draw(st.sampled_from(["before", "after"]))
        fields = pre + (["temp"] if tpos == "before" else []) + [f"Y({s})" for s in SPECIES] + (["temp"] if tpos == "after" else []) + post
        spec = draw(plotgen.plot_specs(thin=True, level_prefix=True, ndims=3, max_levels=2, max_cells=160, fields=fields, payload_kinds=("coded",), max_nb0=3))
        spec["mesh"]["bf"] = 2
        spec["payload"] = dict(kind="physical", seed=draw(st.integers(0, 9999)),
                               zero_frac=draw(st.sampled_from([0.0, 0.0, 0.0, 0.15])))
        if kind == "builtin":
            name = ["HRR", "ENT", "SRi", "SDi", "RRi"][draw(st.integers(0, 2 ** 16)) % 5]
            recipe = dict(kind="builtin", name=name,
                          species=draw(st.lists(st.integers(0, len(SPECIES) - 1), min_size=1, max_size=3, unique=True)),
                          reactions=draw(st.lists(st.integers(0, 83), min_size=1, max_size=3, unique=True)))
            if draw(st.integers(0, 2 ** 16)) % 5 == 0:
                # every species / every reaction of the mechanism, in another order than the mechanism's own
                recipe["species"] = list(draw(st.permutations(list(range(len(SPECIES))))))
                recipe["reactions"] = list(draw(st.permutations(list(range(84)))))
                recipe["full"] = True
        else:
            recipe = dict(kind="sarray", which=draw(st.sampled_from(["density", "cp_T"])))
        recipe["pressure"] = draw(st.sampled_from([1.0, 0.5, 5.0]))
        nf = len(fields)
    fields = spec["fields"]
    kept = None
    if draw(st.booleans()):
        k = draw(st.lists(st.integers(0, nf - 1), min_size=1, max_size=min(nf, 4), unique=True))
        kept = [fields[i] for i in k]
        if draw(st.integers(0, 3)) == 0:
            kept.insert(draw(st.integers(0, len(kept))), "no_such_field")
    nlev = spec["mesh"]["nlev"]
    return dict(spec=spec, recipe=recipe, kept=kept, serial=draw(st.booleans()), sep=draw(st.sampled_from([" ", " ", "  ", "\t", "\n", " \n"])),
                cli=(kind != "callable") and draw(st.sampled_from([False, False, True])),
                sched=dict(exec=[draw(st.lists(st.integers(0, 7), max_size=4)) for _ in range(nlev)],
                           comp=[draw(st.lists(st.integers(0, 7), max_size=4)) for _ in range(nlev)], lazy=draw(st.booleans())))


def compact(case):
    return dict(mesh=case["spec"]["mesh"], nfields=len(case["spec"]["fields"]), recipe=case["recipe"], kept=case["kept"],
                serial=case["serial"], sched=case["sched"])


def cast_comps(comps, cast):
    """expressions of a recipe that returns something else than float64"""
    if cast in ("bool", "int64"):
        # a mask / flag recipe: comparisons of the expressions with the first variable (no float -> int casts of NaN)
        return [f"(({c}) > a)" + ("" if cast == "bool" else ".astype('int64')") for c in comps]
    if cast == "float32":
        return [f"({c}).astype('float32')" for c in comps]
    return list(comps)


def user_recipe_source(rec, fields):
    names = [f"new{i}" for i in range(len(rec["exprs"]))]
    src = ["import numpy as np", "", "def recipe(field_indexes, box_array):"]
    if rec["doc"]:
        src.append(f'    """{" ".join(names)}"""')
    for v, i in zip("abc", rec["vars"]):
        src.append(f"    {v} = box_array[..., field_indexes[{fields[i]!r}]]")
    comps = [EXPRS[e] for e in rec["exprs"]]
    cast = rec.get("cast")
    comps = cast_comps(comps, cast)
    src.append("    with np.errstate(all='ignore'):")
    if len(comps) == 1:
        src.append(f"        return {comps[0]}" + (" + 0.0" if cast is None else ""))
    elif rec["stack"] == "stack":
        src.append(f"        return np.stack([{', '.join(comps)}], axis=-1)")
    else:
        src.append(f"        return np.moveaxis(np.array([{', '.join(comps)}]), 0, -1)")
    return "\n".join(src) + "\n", (names if rec["doc"] else ["user_defined"])


SARRAY_SRC = {"density": 'def recipe(field_indexes, box_array, sol_array):\n    """rho_ct"""\n    return sol_array.density_mass\n',
              "cp_T": 'import numpy as np\n\ndef recipe(field_indexes, box_array, sol_array):\n    """cp_ct T_ct"""\n    return np.stack([sol_array.cp_mass, sol_array.T], axis=-1)\n'}


def cantera_reference(plot, l, b, rec):
    """per-cell evaluation with a plain Solution -> (array (shape..., ncomp), names, valid mask)"""
    g = gas()
    data = plot.box_data(l, b)
    names = plot.fields
    it = names.index("temp")
    iy = [names.index(f"Y({s})") for s in SPECIES]
    P = rec["pressure"] * _CT["atm"]
    if rec["kind"] == "builtin":
        n = rec["name"]
        if n in ("SRi", "SDi"):
            sel = [g.species_index(SPECIES[i]) for i in rec["species"]]
            onames = [("IRm" if n == "SRi" else "DI") + f"({SPECIES[i]})" for i in rec["species"]]
        elif n == "RRi":
            sel = list(rec["reactions"])
            onames = [f"R{i}" for i in sel]
        else:
            sel = None
            onames = ["HeatRelease" if n == "HRR" else "Enthalpy"]
    else:
        onames = ["rho_ct"] if rec["which"] == "density" else ["cp_ct", "T_ct"]
    shp = data.shape[:3]
    out = np.zeros(shp + (len(onames),))
    valid = np.ones(shp, bool)
    for idx in np.ndindex(*shp):
        T = data[idx + (it,)]
        Y = data[idx][iy]
        if T == 0.0 or Y.sum() == 0.0:
            valid[idx] = False
            continue
        g.TPY = T, P, Y
        if rec["kind"] == "builtin":
            val = getattr(g, BUILTIN_NAMES[rec["name"]])
            out[idx] = val[sel] if sel is not None else val
        elif rec["which"] == "density":
            out[idx] = g.density_mass
        else:
            out[idx] = [g.cp_mass, g.T]
    return out, onames, valid


def check_case(case, ctx):
    from amr_kitchen.chef import Chef
    ctx.fresh()
    plot = plotgen.Plot(case["spec"])
    plotgen.write(plot, "src")
    labs = plot.labels()
    rec = case["recipe"]
    fields = plot.fields
    kept = case["kept"]
    kept_known = [k for k in (kept or []) if k in fields]
    ctx.label(*labs, "recipe:" + rec["kind"] + (":" + rec["name"] if rec["kind"] == "builtin" else ""),
              "serial" if case["serial"] else "parallel", "kept" if kept_known else "no-kept")
    kw = dict(outfile="out", serial=case["serial"], kept_fields=None if kept is None else case.get("sep", " ").join(kept))
    if rec.get("full"):
        ctx.label("builtin:every-species/reaction-permuted")
    if rec.get("cast"):
        ctx.label("recipe-returns:" + rec["cast"])
    if kept is not None and case.get("sep", " ") != " ":
        ctx.label("kept-list-separator:" + repr(case["sep"]))
    ns = {}
    if rec["kind"] in ("user", "callable"):
        src, new_names = user_recipe_source(rec, fields)
        with open("recipe_gen.py", "w") as fh:
            fh.write(src)
        exec(compile(src, "recipe_gen.py", "exec"), ns)
        kw["recipe"] = ns["recipe"] if rec["kind"] == "callable" else "recipe_gen.py"
        ncomp = len(rec["exprs"])
    elif rec["kind"] == "sarray":
        with open("recipe_sarr.py", "w") as fh:
            fh.write(SARRAY_SRC[rec["which"]])
        kw.update(recipe="recipe_sarr.py", mech=MECH, pressure=rec["pressure"])
        ncomp = 1 if rec["which"] == "density" else 2
    else:
        kw.update(recipe=rec["name"], mech=MECH, pressure=rec["pressure"])
        if rec["name"] in ("SRi", "SDi"):
            kw["species"] = [SPECIES[i] for i in rec["species"]]
        if rec["name"] == "RRi":
            kw["reactions"] = list(rec["reactions"])
        ncomp = len(kw.get("species", kw.get("reactions", [0])))
    ctx.nontrivial("non-monotone" in labs or "scattered" in labs or bool(kept_known) or ncomp > 1 or not case["serial"])
    use_cli = bool(case.get("cli")) and not case["serial"]      # the command line always cooks in parallel
    if use_cli:
        ctx.label("cli")
    if rec["kind"] in ("user", "callable") and len(fields) % 2 == 0:
        # second use: the output directory already holds an older result (another recipe, every field kept)
        ctx.label("output-directory-holds-an-older-result")
        with open("recipe_old.py", "w") as fh:
            fh.write("import numpy as np\n\ndef recipe(field_indexes, box_array):\n    \"\"\"old_a old_b old_c\"\"\"\n    return np.stack([box_array[..., 0]] * 3, axis=-1)\n")
        try:
            qcall(lambda: Chef("src", recipe="recipe_old.py", outfile="out", serial=True, kept_fields=" ".join(fields)).cook())
        except Exception as e:
            return [f"chef raised {type(e).__name__}: {str(e)[:300]} (older result)"]
    pools.set_schedule(None if case["serial"] else case["sched"])
    try:
        if use_cli:
            import amr_kitchen.chef.cli as cli
            argv = ["chef", "src", "-o", "out", "-r", kw["recipe"]]
            argv += ["-m", kw["mech"]] if "mech" in kw else []
            argv += ["-p", repr(kw["pressure"])] if "pressure" in kw else []
            argv += ["-s"] + kw["species"] if "species" in kw else []
            argv += ["-R"] + [str(r) for r in kw["reactions"]] if "reactions" in kw else []
            argv += ["-k", kw["kept_fields"]] if kw["kept_fields"] is not None else []
            common.run_main(cli.main, argv)
        else:
            c = qcall(Chef, "src", **kw)
            qcall(c.cook)
    except Exception as e:
        return [f"chef raised {type(e).__name__}: {str(e)[:300]} (recipe {rec}, kept {kept}, serial {case['serial']})"]
    finally:
        pools.set_schedule(None)
    v = common.taste_accepts("out")
    out, msgs = common.read_output("out")
    if out is None:
        return v + msgs
    src_ref = refread.read_plotfile("src")
    common.check_spec_roundtrip(plot, src_ref)
    base = common.Model.from_ref(src_ref)
    # expected new components per box
    new_by_box = {}
    valid_by_box = {}
    for l in range(plot.nlev):
        for b, (lo, hi) in enumerate(plot.levels[l]["boxes"]):
            key = (l, tuple(lo), tuple(hi))
            if rec["kind"] in ("user", "callable"):
                with np.errstate(all="ignore"):
                    arr = ns["recipe"](dict((n, i) for i, n in enumerate(fields)), plot.box_data(l, b).copy())
                arr = np.asarray(arr, dtype="<f8")
                new_by_box[key] = arr[..., np.newaxis] if arr.ndim == 3 else arr
            else:
                arr, new_names, valid = cantera_reference(plot, l, b, rec)
                new_by_box[key] = arr
                valid_by_box[key] = valid
    if sorted(out["fields"]) != sorted(kept_known + new_names) or len(set(out["fields"])) != len(out["fields"]):
        return v + [f"output fields {out['fields']} are not the kept fields {kept_known} plus the new fields {new_names}"]
    v += [m for m in refread.compare_mesh(src_ref, out) if "time" not in m or True]
    for l in range(plot.nlev):
        olev = out["levels"][l]
        for b, (lo, hi) in enumerate(olev["idx"]):
            key = (l, tuple(lo), tuple(hi))
            if key not in new_by_box:
                v.append(f"level {l}: output box {lo}..{hi} is not a box of the input")
                continue
            data = olev["data"][b]
            src_box = base.levels[l][(tuple(lo), tuple(hi))]["data"]
            for name in kept_known:
                got = data[..., out["fields"].index(name)]
                if not refread.same_bits(got, src_box[..., fields.index(name)]):
                    v.append(f"level {l} box {lo}..{hi}: kept field {name!r} is not bit-identical to the input "
                             f"(stored under that name: something else)")
                    break
            for j, name in enumerate(new_names):
                got = data[..., out["fields"].index(name)]
                exp = new_by_box[key][..., j]
                if rec["kind"] in ("user", "callable"):
                    ok = refread.same_values(got, exp)      # bit-exact; the payload of a computed NaN is not asserted
                else:
                    m = valid_by_box[key]
                    scale = float(np.max(np.abs(exp[m]))) if m.any() else 0.0
                    ok = got.shape == exp.shape and bool(np.all(np.abs(got[m] - exp[m]) <= 1e-10 * scale + 1e-300))
                if not ok:
                    v.append(f"level {l} box {lo}..{hi}: new field {name!r} is not the recipe evaluated on that box's "
                             f"input data (recipe {rec})")
                    break
            # min/max rows = extrema of the written data
            if olev["mins"] is None or b >= len(olev["mins"]):
                v.append(f"level {l}: min/max tables unreadable")
                break
            d2 = data.reshape(-1, data.shape[-1])
            with np.errstate(invalid="ignore"):
                emn, emx = np.min(d2, axis=0), np.max(d2, axis=0)
            if not refread.float_rows_equal(olev["mins"][b], emn) or not refread.float_rows_equal(olev["maxs"][b], emx):
                v.append(f"level {l} box {lo}..{hi}: min/max rows {olev['mins'][b]} / {olev['maxs'][b]} are not the "
                         f"extrema of the written data {emn.tolist()} / {emx.tolist()}")
            if len(v) >= 4:
                return v
    return v
