"""C10 - whip's uniform grid is the covering grid of the chosen field."""
import itertools
import os
import sys

import numpy as np
from hypothesis import strategies as st

from .. import plotgen, pools
from ..harness import qcall, tree_hash

ID = "C10"
LEVEL = "exploration"
BUDGET = {"quick": 2400, "thorough": 120000}
TECHNIQUE = "property-based testing: covering grid from the generator, bit-exact per dtype; exhaustive completion orders of the per-file tasks with a schedule-owning pool"
RULE = ("Hypothesis-generated 3D plotfiles (1-3 nested levels, partial refinement, 1-4 binary files per level in any "
        "on-disk order, special-float payloads) x field x dtype in {float64, float32} x level limit (-l absent or "
        "0..finest) x explicit / default output name, through whip's CLI entry point main() with a generated argv. "
        "The saved array must equal covering_grid(limit).astype(dtype) bit for bit with axes (x, y, z); then, one "
        "level at a time, every completion order of the per-file read tasks (all n! for n <= 4 files) plus one drawn "
        "The type is spelled by name or by one of numpy's other spellings of the same type. joint order must produce byte-identical files. Non-trivial = >= 2 levels with partial refinement and >= 2 "
        "binary files in some level.")
ASSUMPTIONS = ["schedule-owning pool models imap_unordered as an arbitrary completion order of independent tasks"]


@st.composite
def cases(draw, tier="quick"):
    spec = draw(plotgen.plot_specs(thin=True, level_prefix=True, ndims=3, min_levels=draw(st.sampled_from([2, 1, 2, 3])), max_cells=2500 if tier == "quick" else 8000, max_fields=5,
                                   payload_kinds=("special", "coded", "random"),
                                   layouts=("scatter", "nonmono", "scatter", "single")))
    nlev = spec["mesh"]["nlev"]
    return dict(spec=spec, field=draw(st.integers(0, len(spec["fields"]) - 1)),
                dtype=draw(st.sampled_from(["float64", "float32"])),
                limit=draw(st.one_of(st.none(), st.integers(0, nlev - 1))),
                default_out=draw(st.sampled_from([False, False, True])),
                sched=dict(comp=[draw(st.lists(st.integers(0, 7), max_size=4)) for _ in range(nlev)],
                           exec=[draw(st.lists(st.integers(0, 7), max_size=4)) for _ in range(nlev)]))


def compact(case):
    return dict(mesh=case["spec"]["mesh"], fields=case["spec"]["fields"], field=case["field"], dtype=case["dtype"],
                limit=case["limit"], default_out=case["default_out"], sched=case["sched"])


def run_whip(argv, sched):
    import amr_kitchen.whip.cli as whip
    old = sys.argv
    sys.argv = ["whip"] + argv
    s = pools.set_schedule(sched)
    try:
        qcall(whip.main)
    except SystemExit as e:
        if e.code not in (None, 0):
            raise RuntimeError(f"whip exited with status {e.code}")
    finally:
        sys.argv = old
        pools.set_schedule(None)
    return s


def check_case(case, ctx):
    ctx.fresh()
    plot = plotgen.Plot(case["spec"])
    plotgen.write(plot, "plt00010")
    labs = plot.labels()
    ctx.label(*labs, "dtype:" + case["dtype"])
    limit = case["limit"]
    L = plot.nlev - 1 if limit is None else limit
    nfiles = [len(set(lv["files"])) for lv in plot.levels[:L + 1]]
    ctx.nontrivial(L >= 1 and "partial-refinement" in labs and max(nfiles) >= 2)
    name = plot.fields[case["field"]]
    # the type is spelled as its name or as one of numpy's other spellings of the same type (the option is handed to numpy)
    import zlib as _zl, json as _js
    spellings = {"float64": ["float64", "float64", "f8", "double", "d", "<f8"], "float32": ["float32", "float32", "f4", "single", "f", "<f4"]}[case["dtype"]]
    spelled = spellings[_zl.crc32(_js.dumps(case["spec"]["mesh"], sort_keys=True).encode()) % len(spellings)]
    if spelled != case["dtype"]:
        ctx.label("dtype-spelled:" + spelled)
    argv = ["-v", name, "-y", "-d", spelled]
    if limit is not None:
        argv += ["-l", str(limit)]
    if case["default_out"]:
        outfile = f"{name}_ugrid_00010.npy"
    else:
        argv += ["-o", "grid_out"]
        outfile = "grid_out.npy"
    argv += ["plt00010"]
    try:
        run_whip(argv, None)
    except Exception as e:
        return [f"whip raised {type(e).__name__}: {e} (argv {argv})"]
    if not os.path.isfile(outfile):
        # the default file name is documentation, not part of the property: accept any single new .npy file in the cwd
        npy = [n for n in os.listdir(".") if n.endswith(".npy")]
        if case["default_out"] and len(npy) == 1:
            ctx.label("default-output-renamed")
            outfile = npy[0]
        else:
            return [f"whip did not write {outfile} (cwd holds {sorted(os.listdir('.'))})"]
    got = np.load(outfile)
    exp = plot.covering(L, case["field"]).astype(case["dtype"])
    v = []
    if got.dtype != exp.dtype:
        v.append(f"saved dtype {got.dtype}, requested {case['dtype']}")
    if got.shape != exp.shape:
        v.append(f"saved shape {got.shape} != grid of level {L} {exp.shape} (limit option {limit})")
    elif got.dtype == exp.dtype:
        u = "<u8" if case["dtype"] == "float64" else "<u4"
        diff = np.ascontiguousarray(got).view(u) != np.ascontiguousarray(exp).view(u)
        if diff.any():
            ijk = tuple(np.argwhere(diff)[0])
            lm = plot.level_map(L)
            v.append(f"cell {ijk}: saved {got[ijk]!r}, covering grid has {exp[ijk]!r} (finest level there {lm[ijk]}, "
                     f"limit {limit}); {int(diff.sum())} cells differ")
    if v:
        return v
    ref = tree_hash(outfile)
    # completion orders: one level at a time exhaustively, then the drawn joint schedule
    scheds = []
    for l, n in enumerate(nfiles):
        if 2 <= n <= 4:
            for code in itertools.product(*[range(n - j) for j in range(n)]):
                if any(code):
                    comp = [[]] * l + [list(code)]
                    scheds.append(dict(comp=comp, exec=comp))
    scheds.append(case["sched"])
    for sc in scheds:
        os.remove(outfile)
        try:
            s = run_whip(argv, sc)
        except Exception as e:
            return [f"whip raised {type(e).__name__}: {e} under completion order {sc}"]
        ctx.counters["schedules"] += 1
        if tree_hash(outfile) != ref:
            return [f"saved file differs under completion order {[x[3] for x in s.log]} of the per-file tasks "
                    f"(files per level {nfiles})"]
    return []
