"""C14 - tool outputs are valid tool inputs: pipelines equal the composed pure operations (stateful)."""
import os

import hypothesis
import numpy as np
from hypothesis import HealthCheck, Phase, settings, strategies as st
from hypothesis.stateful import RuleBasedStateMachine, initialize, invariant, precondition, rule, run_state_machine_as_test

from .. import plotgen, pools, refread
from ..harness import case_hash, qcall
from . import common
from .c11 import EXPRS

ID = "C14"
LEVEL = "exploration"
BUDGET = {"quick": 1440, "thorough": 48000}
TECHNIQUE = "stateful model-based testing (Hypothesis RuleBasedStateMachine) with an in-memory content model; every kind-sequence of length <= 2 enumerated explicitly; histories saved as JSON and replayed without Hypothesis"
RULE = ("Hypothesis rule-based state machine over a pool of plotfiles: initialize = generated 3D plotfile (1-3 levels, "
        "any layout, non-zero origin, anisotropic, special floats) or, 1 in 6, the output of chk2plt on a generated checkpoint; rules = colander(src, vars, limit), chef(src, "
        "generated user recipe, kept, serial/parallel), combine(a, b) with b drawn from the plotfiles derived from the "
        "same root with the same level count, and the two named laws (combine(x, chef(x, r)) == x + new fields; "
        "colander(x, all, finest) == x) as dedicated rules; up to 4 operations per history. After every step: taste "
        "accepts the new directory (default + coordinates) and the independent reader's view equals the in-memory "
        "model (fields, mesh, bit-exact values, time / bounds / cell sizes). In addition all 12 kind-sequences of "
        "length <= 2 over {colander, combine, chef} are driven explicitly with drawn parameters. evaluations counts "
        "histories; `steps` in classes counts tool operations. Non-trivial = >= 2 operations, the second consuming "
        "the first's output; distinct = distinct history JSON.")
ASSUMPTIONS = ["combine operands are drawn from the derivation tree (same root, same level count) as the property's quantifier states"]

KINDS = ["colander", "combine", "chef"]
SEQS = [[a] for a in KINDS] + [[a, b] for a in KINDS for b in KINDS]
# a strained (fewer fields, possibly fewer levels, rewritten in header order) copy combined with its ancestor, both ways
SEQS += [["view_ab"], ["view_ba"], ["view_ab"], ["view_ba"]]


# --------------------------------------------------------------------------- executing a history

class World:
    """Plotfiles produced so far in the scratch directory, each with its in-memory model."""

    def __init__(self, ctx):
        self.ctx = ctx
        self.root = ctx.fresh()
        self.items = []          # dict(name, model, rootid, nlev)
        self.violations = []
        self.steps = 0

    def add(self, name, model, rootid):
        self.items.append(dict(name=name, model=model, rootid=rootid, nlev=len(model.levels)))
        return len(self.items) - 1

    def pick(self, i):
        return self.items[i % len(self.items)]

    def verify(self, name, model, op, fields_as="ordered", computed=()):
        self.steps += 1
        self.ctx.counters["steps"] += 1
        self.ctx.label("op:" + op["op"])
        v = common.taste_accepts(name)
        out, msgs = common.read_output(name)
        if out is None:
            v += msgs
        else:
            v += common.compare_model(model, out, fields_as=fields_as, minmax=None, computed=computed)
            if not v and fields_as == "set":
                perm = [model.fields.index(n) for n in out["fields"]]
                model = model.select(perm)
            if not v and computed:
                # the model adopts the written bits of the computed components (equal up to NaN payloads): later copies
                # of them are then compared bit for bit
                for l, lev in enumerate(out["levels"]):
                    for b, (lo, hi) in enumerate(lev["idx"]):
                        box = model.levels[l][(tuple(lo), tuple(hi))]
                        box["data"] = np.array(lev["data"][b][..., [out["fields"].index(n) for n in model.fields]])
        self.violations += [f"step {self.steps} {op}: {m}" for m in v]
        return model


def _names(model, idxs):
    return [model.fields[i % len(model.fields)] for i in idxs]


def apply_op(w, op):
    """Executes one operation against the real tools and the model.  Returns False when the op is not applicable."""
    from amr_kitchen import PlotfileCooker
    from amr_kitchen.chef import Chef
    from amr_kitchen.colander import Colander
    from amr_kitchen.combine import combine
    kind = op["op"]
    name = f"p{len(w.items)}"
    try:
        if kind == "gen":
            plot = plotgen.Plot(op["spec"])
            plotgen.write(plot, name)
            ref = refread.read_plotfile(name)
            common.check_spec_roundtrip(plot, ref)
            model = common.Model.from_ref(ref)
            w.add(name, model, len(w.items))
            w.verify(name, model, op)
            return True
        if kind == "gen_chk":
            # a plotfile written by chk2plt is itself a well-formed input: its model is the checkpoint's interior state
            import sys
            from .. import chkgen
            chk = chkgen.Checkpoint(op["chk"])
            chkgen.write(chk, f"chk_{name}")
            c2p = sys.modules["amr_kitchen.chk2plt.chk2plt"]
            sp = chkgen.SPECIES_POOL[:chk.nspec]
            qcall(c2p.chk2plt, f"chk_{name}", species=sp, gradp=True, species_reactions=False, floor_massfracs=False, pltdir=name)
            fields = ["x_velocity", "y_velocity", "z_velocity", "density"] + [f"Y({x})" for x in sp] + ["rhoh", "temp", "RhoRT", "gradpx", "gradpy", "gradpz"]
            levels = []
            for l in range(chk.nlev):
                d = {}
                for b, (lo, hi) in enumerate(chk.levels[l]["boxes"]):
                    d[(tuple(lo), tuple(hi))] = dict(phys=None, data=np.concatenate([chk.interior("state", l, b), chk.data("gradp", l, b)], axis=-1),
                                                     mins=None, maxs=None)
                levels.append(d)
            out, msgs = common.read_output(name)
            if out is None:
                w.violations += [f"step {w.steps + 1} {dict(op='gen_chk')}: {m}" for m in msgs]
                return True
            # geometry is adopted from the written plotfile (C17 checks it against the checkpoint); contents come from the model
            for l, lev in enumerate(levels):
                for b, (lo, hi) in enumerate(out["levels"][l]["idx"]):
                    if (tuple(lo), tuple(hi)) in lev:
                        lev[(tuple(lo), tuple(hi))]["phys"] = out["levels"][l]["phys"][b]
            model = common.Model(fields, 3, out["time"], out["geo_lo"], out["geo_hi"], out["dx"], out["grid_sizes"], levels)
            w.add(name, model, len(w.items))
            w.verify(name, model, dict(op="gen_chk"))
            return True
        if kind in ("colander", "law_identity"):
            src = w.pick(op["src"])
            m = src["model"]
            if kind == "law_identity":
                variables, kept, L = ["all"], list(m.fields), len(m.levels) - 1
                limit = None
            else:
                variables = list(dict.fromkeys(_names(m, op["vars"])))
                for pos in op.get("unknown_at", []):
                    variables.insert(pos % (len(variables) + 1), "nope")
                kept = [v for v in variables if v in m.fields]
                limit = None if op["limit"] is None else op["limit"] % len(m.levels)
                L = len(m.levels) - 1 if limit is None else limit
            c = qcall(Colander, src["name"], limit_level=limit, output=name,
                      variables=tuple(variables) if (len(variables) + len(name)) % 3 == 0 else variables)
            qcall(c.strain)
            model = m.select([m.fields.index(k) for k in kept], L)
            model = w.verify(name, model, op)
            w.add(name, model, src["rootid"])
            return True
        if kind in ("chef", "law_cook_combine"):
            src = w.pick(op["src"])
            m = src["model"]
            rec = op["recipe"]
            ncomp = len(rec["exprs"])
            new_names = [f"n{len(w.items)}_{i}" for i in range(ncomp)]
            lines = ["import numpy as np", "", "def recipe(field_indexes, box_array):", f'    """{" ".join(new_names)}"""']
            for var, i in zip("abc", rec["vars"]):
                lines.append(f"    {var} = box_array[..., field_indexes[{m.fields[i % len(m.fields)]!r}]]")
            from .c11 import cast_comps
            comps = cast_comps([EXPRS[e % len(EXPRS)] for e in rec["exprs"]], rec.get("cast"))
            lines.append("    with np.errstate(all='ignore'):")
            lines.append(f"        return {comps[0]}" + (" + 0.0" if not rec.get("cast") else "") if ncomp == 1 else f"        return np.stack([{', '.join(comps)}], axis=-1)")
            src_text = "\n".join(lines) + "\n"
            rfile = f"recipe_{len(w.items)}.py"
            with open(rfile, "w") as fh:
                fh.write(src_text)
            ns = {}
            exec(compile(src_text, rfile, "exec"), ns)
            kept = [] if kind == "law_cook_combine" else list(dict.fromkeys(_names(m, op.get("kept", []))))
            pools.set_schedule(op.get("sched"))
            try:
                c = qcall(Chef, src["name"], recipe=rfile, outfile=name, serial=bool(op.get("serial")),
                          kept_fields=" ".join(kept) if kept else None)
                qcall(c.cook)
            finally:
                pools.set_schedule(None)
            fidx = dict((n, i) for i, n in enumerate(m.fields))
            levels = []
            for lev in m.levels:
                d = {}
                for k, b in lev.items():
                    with np.errstate(all="ignore"):
                        arr = np.asarray(ns["recipe"](fidx, b["data"].copy()), dtype="<f8")
                    arr = arr[..., np.newaxis] if arr.ndim == 3 else arr
                    d[k] = dict(phys=b["phys"], data=np.concatenate([b["data"][..., [fidx[x] for x in kept]], arr], axis=-1),
                                mins=None, maxs=None)
                levels.append(d)
            model = common.Model(kept + new_names, m.ndims, m.time, m.geo_lo, m.geo_hi, m.dx, m.grid_sizes, levels)
            model = w.verify(name, model, op, fields_as="set", computed=tuple(new_names))
            ci = w.add(name, model, src["rootid"])
            if kind == "law_cook_combine":
                # combining the cooked field back into the original gives the original fields plus the new one
                name2 = f"p{len(w.items)}"
                qcall(combine, qcall(PlotfileCooker, src["name"]), qcall(PlotfileCooker, name), pltout=name2)
                law = m.concat(model, list(range(len(m.fields))), list(range(len(model.fields))))
                law = w.verify(name2, law, dict(op="combine(x, chef(x))"))
                w.add(name2, law, src["rootid"])
            return True
        if kind == "combine":
            a = w.pick(op["a"])
            # same mesh; a deeper plotfile takes part as a view of its levels 0..L (reader opened with a level limit)
            cands = [i for i, it in enumerate(w.items) if it["rootid"] == a["rootid"] and it is not a]
            if not cands:
                return False
            b = w.items[cands[op["b"] % len(cands)]]
            ma, mb = a["model"], b["model"]
            lim = None
            if a["nlev"] != b["nlev"]:
                lim = min(a["nlev"], b["nlev"]) - 1
                ma, mb = ma.select(list(range(len(ma.fields))), lim), mb.select(list(range(len(mb.fields))), lim)
            v1 = None if op["vars1"] is None else list(dict.fromkeys(_names(ma, op["vars1"])))
            v2 = None if op["vars2"] is None else list(dict.fromkeys(_names(mb, op["vars2"])))
            s1 = list(ma.fields) if v1 is None else v1
            s2 = [f for f in (list(mb.fields) if v2 is None else v2) if f not in s1]
            if not s2:
                return False
            if lim is not None:
                w.ctx.label("combine:level-limited-view")
            pools.set_schedule(op.get("sched"))
            try:
                qcall(combine, qcall(PlotfileCooker, a["name"], limit_level=lim), qcall(PlotfileCooker, b["name"], limit_level=lim),
                      pltout=name, vars1=None if v1 is None else " ".join(v1), vars2=v2)
            finally:
                pools.set_schedule(None)
            model = ma.concat(mb, [ma.fields.index(f) for f in s1], [mb.fields.index(f) for f in s2])
            model = w.verify(name, model, op)
            w.add(name, model, a["rootid"])
            return True
    except Exception as e:
        w.violations.append(f"step {w.steps + 1} {op}: the tool raised {type(e).__name__}: {str(e)[:300]}")
        return True
    raise ValueError(kind)


def check_case(case, ctx):
    w = World(ctx)
    applied = 0
    chained = False
    produced_by_step = set()
    for op in case["history"]:
        before = len(w.items)
        ok = apply_op(w, op)
        if ok and op["op"] not in ("gen", "gen_chk"):
            applied += 1
            srcs = [op.get(k) for k in ("src", "a") if k in op]
            if any(s is not None and (s % before) in produced_by_step for s in srcs) or op["op"] == "law_cook_combine":
                chained = True
            produced_by_step.update(range(before, len(w.items)))
        if w.violations:
            break
    ctx.label(f"ops:{applied}")
    ctx.nontrivial(applied >= 2 and chained or any(op["op"] == "law_cook_combine" for op in case["history"]))
    return w.violations


def compact(case):
    def c(op):
        if op["op"] == "gen":
            return dict(op="gen", mesh=op["spec"]["mesh"], fields=op["spec"]["fields"])
        if op["op"] == "gen_chk":
            return dict(op="gen_chk", mesh=op["chk"]["mesh"], nspec=op["chk"]["nspec"])
        return dict(op)
    return [c(op) for op in case["history"]]


# --------------------------------------------------------------------------- strategies for operations

def gen_ops():
    from .. import chkgen
    plain = plotgen.plot_specs(thin=True, level_prefix=True, ndims=3, max_cells=1200, min_fields=2, max_fields=4,
                               payload_kinds=("coded", "random", "special")).map(lambda s: dict(op="gen", spec=s))
    from_chk = chkgen.chk_specs("quick").map(lambda c: dict(op="gen_chk", chk=c))
    return st.one_of(plain, plain, plain, plain, plain, from_chk)


idx = st.integers(0, 30)
sched = st.fixed_dictionaries(dict(exec=st.lists(st.lists(st.integers(0, 5), max_size=4), max_size=3),
                                   comp=st.lists(st.lists(st.integers(0, 5), max_size=4), max_size=3), lazy=st.booleans()))
recipes = st.fixed_dictionaries(dict(exprs=st.lists(st.integers(0, len(EXPRS) - 1), min_size=1, max_size=2),
                                     vars=st.lists(idx, min_size=3, max_size=3),
                                     cast=st.sampled_from([None, None, None, "bool", "int64", "float32"])))
colander_ops = st.fixed_dictionaries(dict(op=st.just("colander"), src=idx, vars=st.lists(idx, min_size=1, max_size=4),
                                          limit=st.one_of(st.none(), st.integers(0, 3)),
                                          unknown_at=st.lists(idx, max_size=1)))
chef_ops = st.fixed_dictionaries(dict(op=st.just("chef"), src=idx, recipe=recipes, kept=st.lists(idx, max_size=3),
                                      serial=st.booleans(), sched=sched))
combine_ops = st.fixed_dictionaries(dict(op=st.just("combine"), a=idx, b=idx,
                                         vars1=st.one_of(st.none(), st.lists(idx, min_size=1, max_size=3)),
                                         vars2=st.one_of(st.none(), st.lists(idx, min_size=1, max_size=3)), sched=sched))
law1_ops = st.fixed_dictionaries(dict(op=st.just("law_cook_combine"), src=idx, recipe=recipes, serial=st.booleans()))
law2_ops = st.fixed_dictionaries(dict(op=st.just("law_identity"), src=idx))
OPS = dict(colander=colander_ops, chef=chef_ops, combine=combine_ops)


@st.composite
def cases(draw, tier="quick"):
    """Explicit kind-sequences of length <= 2 (each with drawn parameters); combine gets a sibling made on purpose."""
    seq = SEQS[draw(st.integers(0, 2 ** 16)) % len(SEQS)]
    hist = [draw(gen_ops())]
    if seq[0].startswith("view_"):
        col = dict(draw(colander_ops), src=0, unknown_at=[])
        col["vars"] = col["vars"][:draw(st.integers(1, 2))]
        nlev0 = (hist[0].get("spec") or hist[0].get("chk"))["mesh"]["nlev"]
        if nlev0 >= 2 and draw(st.booleans()):
            col["limit"] = draw(st.integers(0, nlev0 - 2))      # strictly fewer levels than the ancestor
        hist.append(col)
        comb = dict(draw(combine_ops))
        if seq[0] == "view_ab":        # strained copy first, ancestor second: the ancestor supplies the fields strained away
            comb.update(a=1, b=0, vars1=None)
        else:                          # ancestor first (some of its fields), strained copy second
            comb.update(a=0, b=0, vars1=draw(st.lists(idx, min_size=1, max_size=2)), vars2=None)
        hist.append(comb)
        return dict(history=hist, seq=seq)
    for i, kind in enumerate(seq):
        op = dict(draw(OPS[kind]))
        if kind == "combine":
            # make sure a same-root, same-level-count partner with something new exists: cook a sibling of the operand first
            hist.append(dict(draw(chef_ops), src=len(hist) - 1 if i else 0, kept=[]))
            op["a"] = len(hist) - 2
            op["b"] = 0 if len(hist) == 2 else draw(idx)
        elif i:
            op["src"] = len(hist) - 1          # the second operation consumes the first one's output
        hist.append(op)
    return dict(history=hist, seq=seq)


# --------------------------------------------------------------------------- the state machine

def run_custom(tier, shard, nshards, vseed, ctx, res, run_one, n_examples):
    """Hypothesis cases() part for the enumerated kind-sequences, then the rule-based machine."""
    from hypothesis import given, seed
    failing = {}
    state = {}
    half = max(1, n_examples // 2)

    @seed(vseed * 7919 + shard * 104729 + 17)
    @settings(max_examples=half, database=None, deadline=None, report_multiple_bugs=False,
              suppress_health_check=list(HealthCheck), phases=[Phase.generate, Phase.shrink])
    @given(cases(tier))
    def t(case):
        msgs = run_one(case)
        if msgs:
            state["last"] = (case, msgs)
            raise AssertionError(msgs[0])
    from hypothesis.errors import Flaky
    try:
        t()
    except (AssertionError, Flaky) as e:
        if not state.get("last"):
            raise
        case, msgs = state["last"]
        res["violations"].append(dict(case=case, messages=msgs[:5], origin="kind-sequence" + (
            " (not reproducible in isolation: depends on what ran earlier in the process)" if isinstance(e, Flaky) else "")))
        return

    class Pipelines(RuleBasedStateMachine):
        def __init__(self):
            super().__init__()
            self.history = []
            self.ops = 0

        def _run(self, op):
            self.history.append(op)
            msgs = run_one(dict(history=list(self.history)))     # re-executes the prefix: every step stays a pure function of the JSON history
            if msgs:
                state["last"] = (dict(history=list(self.history)), msgs)
                raise AssertionError(msgs[0])

        @initialize(op=gen_ops())
        def start(self, op):
            self._run(op)

        @precondition(lambda self: self.ops < 4)
        @rule(op=colander_ops)
        def colander(self, op):
            self.ops += 1
            self._run(op)

        @precondition(lambda self: self.ops < 4)
        @rule(op=chef_ops)
        def chef(self, op):
            self.ops += 1
            self._run(op)

        @precondition(lambda self: 1 <= self.ops < 4)
        @rule(op=combine_ops)
        def combine(self, op):
            self.ops += 1
            self._run(op)

        @precondition(lambda self: self.ops < 3)
        @rule(op=law1_ops)
        def law_cook_combine(self, op):
            self.ops += 2
            self._run(op)

        @precondition(lambda self: self.ops < 4)
        @rule(op=law2_ops)
        def law_identity(self, op):
            self.ops += 1
            self._run(op)

        @precondition(lambda self: self.ops >= 4)
        @rule()
        def done(self):
            pass

    try:
        run_state_machine_as_test(hypothesis.seed(vseed * 7919 + shard * 104729 + 19)(Pipelines),
                                  settings=settings(max_examples=max(1, n_examples - half), stateful_step_count=5, deadline=None,
                                                    database=None, report_multiple_bugs=False,
                                                    suppress_health_check=list(HealthCheck),
                                                    phases=[Phase.generate, Phase.shrink]))
    except (AssertionError, Flaky) as e:
        if not state.get("last"):
            raise
        case, msgs = state["last"]
        res["violations"].append(dict(case=case, messages=msgs[:5], origin="state-machine" + (
            " (not reproducible in isolation: depends on what ran earlier in the process)" if isinstance(e, Flaky) else "")))
