"""C17 - chk2plt carries the checkpoint's interior state into a valid plotfile."""
import os

import numpy as np
from hypothesis import strategies as st

from .. import chkgen, plotgen, pools, refread
from ..harness import POISONS, poisoned_empty, qcall, snapshot, snapshot_diff
from . import common

ID = "C17"
LEVEL = "exploration"
BUDGET = {"quick": 1920, "thorough": 150000}
TECHNIQUE = "property-based testing: generated PeleLMeX checkpoints, reference ghost-strip / floor / concat model, independent reader, taste, input snapshot, poison differential"
RULE = ("Hypothesis-generated synthetic checkpoints (1-3 nested levels, non-cubic / anisotropic domains, non-zero "
        "origin, 1-5 species, ghost width 1-3, both Header variants, each of the five data subsets with its own "
        "independent binary layout) x gradp x species_reactions x floor_massfracs x species source (explicit list, "
        "reference plotfile with Y(...) names, reference plotfile with only I_R(...) names) x explicit / default "
        "output (trailing slash, names without 'chk') x drawn worker order. Oracle: taste accepts incl. coordinates; "
        "field list; levels, boxes, time, bounds; every box == interior of the state FAB bit-exact (species / sum when "
        "flooring, rtol 1e-14) followed by the gradp / I_R FAB with the same index range; min/max rows == extrema of "
        "the written data; checkpoint snapshot unchanged; two numpy.empty / empty_like poisons give identical trees (one checkpoint in four holds cells without any species: what flooring makes of them is not asserted, only that it is determined by the checkpoint). "
        "One checkpoint in 40 is a single box of 36^3 cells (FABs above one mebibyte). The second conversion's object converts once more into the same place. Non-trivial = >= 2 levels, or a scattered / non-monotone subset layout, or state and gradp layouts differ.")
ASSUMPTIONS = ["checkpoint format as in test_assets/example_chk_3d (five subsets, nodal p, ghosted state / divU)",
               "non-integral times (the reader's heuristic for the optional integer line)"]


@st.composite
def cases(draw, tier="quick"):
    spec = draw(chkgen.chk_specs(tier))
    nlev = spec["mesh"]["nlev"]
    return dict(spec=spec, gradp=draw(st.booleans()), reactions=draw(st.booleans()), floor=draw(st.booleans()),
                source=draw(st.sampled_from(["list", "plt_Y", "plt_IR"])),
                out=draw(st.sampled_from(["explicit", "explicit", "default", "default_slash", "default_nochk"])),
                sched=dict(exec=[draw(st.lists(st.integers(0, 7), max_size=4)) for _ in range(nlev)],
                           comp=[draw(st.lists(st.integers(0, 7), max_size=4)) for _ in range(nlev)], lazy=draw(st.booleans())),
                how=draw(st.sampled_from(["api", "api", "cli"])))


def compact(case):
    s = case["spec"]
    return dict(mesh=s["mesh"], geom=s["geom"], nspec=s["nspec"], nghost=s["nghost"], layouts=s["layouts"],
                gradp=case["gradp"], reactions=case["reactions"], floor=case["floor"], source=case["source"], out=case["out"])


def species_names(n):
    return chkgen.SPECIES_POOL[:n]


def write_reference_plotfile(path, names):
    spec = dict(mesh=dict(ndims=3, bf=2, m=1, nb0=[1, 1, 1], nlev=1, rects=[], no_unit=False, chop_seed=0, order_seed=0,
                          layout=dict(cls="single", seed=0, nfiles=1)),
                geom=dict(iso=True, lengths=[1.0, 1.0, 1.0], origin=[0.0, 0.0, 0.0]), fields=names, time=0.25, step=7,
                payload=dict(kind="coded", seed=0), style="amrex", extra_factors=0)
    plotgen.write(plotgen.Plot(spec), path)


def run(case, chkdir, pltdir, poison, sched, again=False):
    import sys
    c2p = sys.modules["amr_kitchen.chk2plt.chk2plt"]
    sp = species_names(case["spec"]["nspec"])
    kw = dict(gradp=case["gradp"], species_reactions=case["reactions"], floor_massfracs=case["floor"], pltdir=pltdir)
    if case["source"] == "list":
        kw["species"] = sp
    else:
        kw["target_plotfile"] = "refplt"
    pools.set_schedule(sched)
    try:
        with poisoned_empty(poison):
            if case.get("how") == "cli":
                import amr_kitchen.chk2plt.cli as cli
                # -ip switches the pressure gradient OFF, -f switches the rescaling OFF (store_false flags), -ir switches reactions ON
                argv = ["chk2plt", "-c", chkdir] + ([] if case["gradp"] else ["-ip"]) + (["-ir"] if case["reactions"] else []) \
                    + ([] if case["floor"] else ["-f"]) + (["-o", pltdir] if pltdir else [])
                argv += ["-s"] + sp if case["source"] == "list" else ["-p", "refplt"]
                common.run_main(cli.main, argv)
            else:
                obj = qcall(c2p.chk2plt, chkdir, **kw)
                if again:
                    # the same object converts once more into the same place: the result is the same plotfile
                    qcall(obj.convert)
    finally:
        pools.set_schedule(None)


def check_case(case, ctx):
    ctx.fresh()
    chk = chkgen.Checkpoint(case["spec"])
    name = "restart00020" if case["out"] == "default_nochk" else "chk00020"
    chkgen.write(chk, name)
    sp = species_names(chk.nspec)
    if case["source"] == "plt_Y":
        write_reference_plotfile("refplt", ["density"] + [f"Y({s})" for s in sp] + ["temp"] + [f"I_R({s})" for s in sp])
    elif case["source"] == "plt_IR":
        write_reference_plotfile("refplt", ["density", "temp"] + [f"I_R({s})" for s in sp])
    labs = chk.labels()
    ctx.label(*labs, "source:" + case["source"], "out:" + case["out"], f"ghost{chk.nghost}", "how:" + case.get("how", "api"),
              "gradp" if case["gradp"] else "no-gradp", "reactions" if case["reactions"] else "no-reactions",
              "floor" if case["floor"] else "no-floor")
    ctx.nontrivial(chk.nlev >= 2 or any(":" in x for x in labs) or "state/gradp-layouts-differ" in labs)
    if case["out"] == "explicit":
        chkarg, pltdir, expected_out = name, "out_plt", "out_plt"
    elif case["out"] == "default":
        chkarg, pltdir, expected_out = name, None, "plt00020"
    elif case["out"] == "default_slash":
        chkarg, pltdir, expected_out = name + "/", None, "plt00020"
    else:
        chkarg, pltdir, expected_out = name, None, None
    snap = snapshot(name)
    before = set(os.listdir("."))
    v = []
    try:
        run(case, chkarg, pltdir, POISONS[0], case["sched"])
    except Exception as e:
        v.append(f"chk2plt raised {type(e).__name__}: {str(e)[:300]} (gradp={case['gradp']} reactions={case['reactions']} "
                 f"floor={case['floor']} source={case['source']} out={case['out']})")
    d = snapshot_diff(snap, snapshot(name))
    if d:
        v.append(f"the conversion wrote into the checkpoint: {d[:4]} (output form {case['out']})")
    if v:
        return v
    new = sorted(set(os.listdir(".")) - before)
    if expected_out is None:
        if len(new) != 1:
            return [f"default output for a checkpoint named {name}: new entries {new}"]
        expected_out = new[0]
    if not os.path.isdir(expected_out):
        # the default name is documentation, not part of the property: accept any single new directory beside the checkpoint
        dirs = [n for n in new if os.path.isdir(n)]
        if case["out"] != "explicit" and len(dirs) == 1:
            ctx.label("default-output-renamed")
            expected_out = dirs[0]
        else:
            return [f"expected output {expected_out} was not written (new entries {new})"]
    v += common.taste_accepts(expected_out)
    out, msgs = common.read_output(expected_out)
    if out is None:
        return v + msgs
    fields = ["x_velocity", "y_velocity", "z_velocity", "density"] + [f"Y({s})" for s in sp] + ["rhoh", "temp", "RhoRT"]
    if case["gradp"]:
        fields += ["gradpx", "gradpy", "gradpz"]
    if case["reactions"]:
        fields += [f"I_R({s})" for s in sp]
    if out["fields"] != fields:
        return v + [f"fields {out['fields']} != expected {fields}"]
    if out["ndims"] != 3 or out["max_level"] != chk.nlev - 1:
        return v + [f"ndims {out['ndims']} / finest level {out['max_level']} != 3 / {chk.nlev - 1}"]
    if out["time"] != chk.time:
        v.append(f"time {out['time']!r} != checkpoint time {chk.time!r}")
    if out["geo_lo"] != chk.geo_lo or out["geo_hi"] != chk.geo_hi:
        v.append(f"domain {out['geo_lo']}..{out['geo_hi']} != checkpoint {chk.geo_lo}..{chk.geo_hi}")
    for l in range(chk.nlev):
        olev = out["levels"][l]
        if not np.allclose(out["dx"][l], chk.dx[l], rtol=1e-13, atol=0):
            v.append(f"level {l}: cell sizes {out['dx'][l]} != {chk.dx[l]}")
        if out["grid_sizes"][l] != chk.plot.grid_size(l):
            v.append(f"level {l}: grid size {out['grid_sizes'][l]} != {chk.plot.grid_size(l)}")
        boxes = [(list(lo), list(hi)) for lo, hi in chk.levels[l]["boxes"]]
        if [(lo, hi) for lo, hi in olev["idx"]] != boxes:
            v.append(f"level {l}: boxes {olev['idx'][:3]} != checkpoint boxes {boxes[:3]}")
            continue
        for b, (lo, hi) in enumerate(boxes):
            ephys = chk.plot.phys_box(l, b)
            scale = max(max(abs(x) for x in chk.geo_lo), max(abs(x) for x in chk.geo_hi))
            if not np.allclose(np.array(olev["phys"][b]), np.array(ephys), rtol=0, atol=1e-9 * scale):
                v.append(f"level {l} box {b}: physical bounds {olev['phys'][b]} != {ephys}")
            st_ = chk.interior("state", l, b).copy()
            rtol = 0.0
            nosp = np.zeros(st_.shape[:3], bool)
            if case["floor"]:
                ysum = st_[..., 4:4 + chk.nspec].sum(axis=-1)
                # cells without any species cannot be rescaled to sum to one: their mass fractions are not asserted, only
                # that they are determined by the checkpoint (the two-poison differential below)
                nosp = ysum == 0.0
                with np.errstate(invalid="ignore", divide="ignore"):
                    st_[..., 4:4 + chk.nspec] /= ysum[..., np.newaxis]
            parts = [st_]
            if case["gradp"]:
                parts.append(chk.data("gradp", l, b))
            if case["reactions"]:
                parts.append(chk.data("I_R", l, b))
            exp = np.concatenate(parts, axis=-1)
            got = olev["data"][b]
            if got.shape != exp.shape:
                v.append(f"level {l} box {b}: shape {got.shape} != interior of the state FAB + extras {exp.shape}")
                continue
            ysl = slice(4, 4 + chk.nspec)
            other = np.ones(exp.shape[-1], bool)
            other[ysl] = False
            if not refread.same_bits(got[..., other], exp[..., other]):
                j = int(np.argwhere(refread.bits(got[..., other]) != refread.bits(exp[..., other]))[0][-1])
                v.append(f"level {l} box {b} ({lo}..{hi}): field {np.array(fields)[other][j]} is not the checkpoint's "
                         f"interior value of the box with the same index range")
            elif case["floor"]:
                if not np.allclose(got[..., ysl][~nosp], exp[..., ysl][~nosp], rtol=1e-14, atol=0):
                    v.append(f"level {l} box {b}: mass fractions are not the checkpoint values rescaled to sum to one")
            elif not refread.same_bits(got[..., ysl], exp[..., ysl]):
                v.append(f"level {l} box {b}: mass fractions differ from the checkpoint although flooring is off")
            d2 = got.reshape(-1, got.shape[-1])
            emn = [float("%.16e" % x) for x in d2.min(axis=0)]
            emx = [float("%.16e" % x) for x in d2.max(axis=0)]
            if olev["mins"] is None or not refread.float_rows_equal(olev["mins"][b], emn) or not refread.float_rows_equal(olev["maxs"][b], emx):
                v.append(f"level {l} box {b}: min/max rows are not the extrema of the written data")
            if len(v) >= 4:
                return v
    # determined by stored data only: a second conversion under another poison - by an object that then converts once
    # more into the same place - gives the same tree
    from ..harness import tree_files
    first = tree_files(expected_out)
    try:
        run(case, chkarg, "out_plt2", POISONS[1], None, again=True)
        second = tree_files("out_plt2")
        if first != second:
            diff = [k for k in first if first[k] != second.get(k)][:3]
            v.append(f"output depends on uninitialised memory or worker order: {diff} differ between two conversions")
    except Exception as e:
        v.append(f"second conversion raised {type(e).__name__}: {e}")
    return v
