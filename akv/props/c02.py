"""C02 - opening a plotfile exposes exactly the metadata its headers state."""
import os
import shutil

import numpy as np
from hypothesis import strategies as st

from .. import plotgen
from ..harness import qcall

ID = "C02"
LEVEL = "exploration"
BUDGET = {"quick": 4800, "thorough": 450000}
TECHNIQUE = "property-based testing: generated header variants, reader metadata compared with the generator's spec"
RULE = ("Hypothesis-generated 2D/3D plotfiles with header variants (AMReX 17-digit style with trailing blanks or "
        "shortest-repr style, refinement-ratio line longer than needed, repeated field names, non-zero origin, "
        "anisotropic cells, 1-4 levels, scattered layouts) x {limit_level in 0..finest, finest+1, finest+3} x "
        "header_only (on a copy without Level_* directories) x maxmins; every exposed attribute compared with the "
        "generator's spec (exact float equality for values that round-trip through the header text). "
        "Non-trivial = >= 2 levels, or origin != 0, or anisotropic, or repeated name, or long refinement line.")
ASSUMPTIONS = ["the generator's spec is what the headers state (cross-checked by the independent reader in C05)"]


@st.composite
def cases(draw, tier="quick"):
    spec = draw(plotgen.plot_specs(thin=True, many=True, level_prefix=True, max_levels=4, max_cells=1500 if tier == "quick" else 6000, max_fields=6,
                                   payload_kinds=("coded", "random", "special")))
    if spec["mesh"]["nlev"] == 4:
        spec["mesh"]["nb0"] = [min(n, 2) for n in spec["mesh"]["nb0"]]
        if spec["mesh"]["no_unit"]:
            spec["mesh"]["nb0"] = [2] * spec["mesh"]["ndims"]
    if draw(st.sampled_from([False, False, True])):
        # repeated field names
        f = spec["fields"]
        for _ in range(draw(st.integers(1, 3))):
            name = f[draw(st.integers(0, len(f) - 1))]
            base = name.rsplit("_", 1)[0] if name.rsplit("_", 1)[-1].isdigit() else name
            # a plain repeat, or the literal numbered form the reader itself would invent for a repeat
            new = draw(st.sampled_from([base, base, f"{base}_2", f"{base}_3"]))
            f.insert(draw(st.integers(0, len(f))), new)
    nlev = spec["mesh"]["nlev"]
    limits = draw(st.lists(st.sampled_from([None] + list(range(nlev)) + [nlev, nlev + 2]), min_size=1, max_size=3, unique=True))
    return dict(spec=spec, limits=limits, maxmins=draw(st.booleans()))


def compact(case):
    return dict(mesh=case["spec"]["mesh"], geom=case["spec"]["geom"], fields=case["spec"]["fields"],
                style=case["spec"]["style"], extra_factors=case["spec"]["extra_factors"], limits=case["limits"])


def _check_global(pck, plot, L, v, tag):
    nf = plot.nf
    keys = list(pck.fields.keys())
    if len(keys) != nf or [pck.fields[k] for k in keys] != list(range(nf)):
        v.append(f"{tag}: fields {pck.fields} do not map one unique key per component in header order")
    else:
        # a repeated name is exposed under the first free name among name_2, name_3, ... (the reader's documented
        # convention: the k-th occurrence is name_k unless the header already uses that literal name)
        exp = []
        for n in plot.fields:
            if n not in exp:
                exp.append(n)
            else:
                k = 2
                while f"{n}_{k}" in exp:
                    k += 1
                exp.append(f"{n}_{k}")
        if keys != exp:
            v.append(f"{tag}: field names {keys} != header names {plot.fields} (repeats numbered from _2: {exp})")
    if pck.ndims != plot.ndims:
        v.append(f"{tag}: ndims {pck.ndims} != {plot.ndims}")
    if pck.time != plot.time:
        v.append(f"{tag}: time {pck.time!r} != {plot.time!r}")
    if pck.max_level != plot.nlev - 1:
        v.append(f"{tag}: max_level {pck.max_level} != {plot.nlev - 1}")
    if pck.limit_level != L:
        v.append(f"{tag}: limit_level {pck.limit_level} != {L}")
    if list(pck.geo_low) != plot.geo_lo or list(pck.geo_high) != plot.geo_hi:
        v.append(f"{tag}: domain bounds {pck.geo_low}..{pck.geo_high} != {plot.geo_lo}..{plot.geo_hi}")
    for l in range(plot.nlev):
        if l < len(pck.dx) and list(pck.dx[l]) != plot.dx[l]:
            v.append(f"{tag}: dx[{l}] {pck.dx[l]} != {plot.dx[l]}")
        if l < len(pck.grid_sizes) and [int(x) for x in pck.grid_sizes[l]] != plot.grid_size(l):
            v.append(f"{tag}: grid_sizes[{l}] {pck.grid_sizes[l]} != {plot.grid_size(l)}")
    if len(pck.dx) != plot.nlev or len(pck.grid_sizes) != plot.nlev:
        v.append(f"{tag}: dx / grid_sizes do not list every level of the header")
    if len(pck.grids) != L + 1:
        v.append(f"{tag}: grids has {len(pck.grids)} levels, expected {L + 1}")
    else:
        for l in range(L + 1):
            for d in range(plot.ndims):
                c = plot.centres(l, d)
                scale = max(abs(plot.geo_lo[d]), abs(plot.geo_hi[d]))
                if len(pck.grids[l][d]) != len(c) or not np.all(np.abs(pck.grids[l][d] - c) <= 1e-12 * scale):
                    v.append(f"{tag}: grids[{l}][{d}] are not the cell centres")
                    return


def _check_levels(pck, plot, offsets, L, maxmins, v, tag):
    if len(pck.boxes) != L + 1 or len(pck.cells) != L + 1:
        v.append(f"{tag}: {len(pck.boxes)} box levels / {len(pck.cells)} cell levels exposed, expected {L + 1}")
        return
    keys = list(pck.fields.keys())
    for l in range(L + 1):
        lev = plot.levels[l]
        nb = len(lev["boxes"])
        if len(pck.boxes[l]) != nb or len(pck.cells[l]["indexes"]) != nb:
            v.append(f"{tag}: level {l} exposes {len(pck.boxes[l])} boxes, header has {nb}")
            continue
        for b in range(nb):
            if [list(x) for x in pck.boxes[l][b]] != plot.phys_box(l, b):
                v.append(f"{tag}: level {l} box {b} bounds {pck.boxes[l][b]} != {plot.phys_box(l, b)}")
                break
            lo, hi = lev["boxes"][b]
            idx = pck.cells[l]["indexes"][b]
            if [int(x) for x in idx[0]] != list(lo) or [int(x) for x in idx[1]] != list(hi):
                v.append(f"{tag}: level {l} box {b} index range {idx} != {(lo, hi)}")
                break
            if os.path.basename(pck.cells[l]["files"][b]) != f"Cell_D_{lev['files'][b]:05d}":
                v.append(f"{tag}: level {l} box {b} file {pck.cells[l]['files'][b]} != Cell_D_{lev['files'][b]:05d}")
                break
            if os.path.realpath(os.path.dirname(pck.cells[l]["files"][b])) != os.path.realpath(os.path.join("src", plot.level_dir(l))):
                v.append(f"{tag}: level {l} box {b} file path {pck.cells[l]['files'][b]} not under {plot.level_dir(l)}")
                break
            if int(pck.cells[l]["offsets"][b]) != offsets[l][b]:
                v.append(f"{tag}: level {l} box {b} offset {pck.cells[l]['offsets'][b]} != {offsets[l][b]}")
                break
        # the per-file and per-box views of the same header data: every (file, byte offset, index range) triple the level
        # header states, each exactly once
        want = sorted((f"Cell_D_{lev['files'][b]:05d}", int(offsets[l][b]), tuple(lev["boxes"][b][0]), tuple(lev["boxes"][b][1])) for b in range(nb))
        try:
            got_f = sorted((os.path.basename(str(bf)), int(o), tuple(int(x) for x in i[0]), tuple(int(x) for x in i[1]))
                           for bf, offs, idxs in pck.bybinfile(l) for o, i in zip(offs, idxs))
            got_b = sorted((os.path.basename(str(d["bfile"])), int(d["off"]), tuple(int(x) for x in d["indexes"][0]), tuple(int(x) for x in d["indexes"][1]))
                           for d in pck.bybox(l))
            if got_f != want:
                v.append(f"{tag}: level {l}: the per-file view (bybinfile) pairs files, offsets and index ranges as {got_f[:3]}..., the level header states {want[:3]}...")
            if got_b != want:
                v.append(f"{tag}: level {l}: the per-box view (bybox) yields {got_b[:3]}..., the level header states {want[:3]}...")
        except Exception as e:
            v.append(f"{tag}: level {l}: the per-file / per-box views raised {type(e).__name__}: {e}")
        if maxmins:
            if "mins" not in pck.cells[l] or "maxs" not in pck.cells[l]:
                v.append(f"{tag}: level {l}: min/max tables not exposed")
                continue
            for b in range(nb):
                mn, mx = plotgen.minmax_rows(plot.box_data(l, b), plot.nf)
                emn = [float("%.16e" % x) for x in mn]
                emx = [float("%.16e" % x) for x in mx]
                gmn = [float(pck.cells[l]["mins"][k][b]) for k in keys]
                gmx = [float(pck.cells[l]["maxs"][k][b]) for k in keys]
                same = all((a == e) or (a != a and e != e) for a, e in zip(gmn + gmx, emn + emx))
                if not same:
                    v.append(f"{tag}: level {l} box {b} min/max {gmn}/{gmx} != header tables {emn}/{emx}")
                    break
        elif "mins" in pck.cells[l]:
            pass


def check_case(case, ctx):
    from amr_kitchen import PlotfileCooker
    ctx.fresh()
    plot = plotgen.Plot(case["spec"])
    offsets = plotgen.write(plot, "src")
    labs = plot.labels()
    ctx.label(*labs)
    repeated = len(set(plot.fields)) < plot.nf
    if repeated:
        ctx.label("repeated-names")
    if plot.extra_factors:
        ctx.label("long-refinement-line")
    ctx.label("style:" + plot.style)
    ctx.nontrivial(plot.nlev >= 2 or "origin!=0" in labs or "anisotropic" in labs or repeated or plot.extra_factors > 0)
    v = []
    finest = plot.nlev - 1
    for limit in case["limits"]:
        tag = f"limit_level={limit}"
        if limit is not None and limit > finest:
            ctx.label("limit>finest")
            for kw in (dict(), dict(header_only=True)):
                try:
                    qcall(PlotfileCooker, "src", limit_level=limit, **kw)
                    v.append(f"{tag} {kw}: a limit above the finest level ({finest}) was accepted")
                except Exception:
                    pass
            continue
        L = finest if limit is None else limit
        try:
            pck = qcall(PlotfileCooker, "src", limit_level=limit, maxmins=case["maxmins"])
        except Exception as e:
            v.append(f"{tag}: opening raised {type(e).__name__}: {e}")
            continue
        for fn, args in ((_check_global, (pck, plot, L, v, tag)),
                         (_check_levels, (pck, plot, offsets, L, case["maxmins"], v, tag))):
            try:
                fn(*args)
            except Exception as e:      # the exposed structure cannot even be indexed the way the headers are laid out
                v.append(f"{tag}: exposed metadata has an unexpected structure: {type(e).__name__}: {e}")
    # header-only opening on a copy without level directories / binaries
    os.makedirs("hdr")
    shutil.copy("src/Header", "hdr/Header")
    limit = case["limits"][0]
    if limit is None or limit <= finest:
        L = finest if limit is None else limit
        try:
            pck = qcall(PlotfileCooker, "hdr", limit_level=limit, header_only=True)
            try:
                _check_global(pck, plot, L, v, f"header_only limit_level={limit}")
            except Exception as e:
                v.append(f"header_only: exposed metadata has an unexpected structure: {type(e).__name__}: {e}")
            if len(pck.boxes) != L + 1:
                v.append(f"header_only: {len(pck.boxes)} box levels, expected {L + 1}")
            else:
                for l in range(L + 1):
                    if [[list(x) for x in bx] for bx in pck.boxes[l]] != [plot.phys_box(l, b) for b in range(len(plot.levels[l]["boxes"]))]:
                        v.append(f"header_only: level {l} box bounds differ from the header")
        except Exception as e:
            v.append(f"header_only opening needs level headers or binaries: {type(e).__name__}: {e}")
    return v
