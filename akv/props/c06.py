"""C06 - combine merges fields box by box, independent of either input's file layout."""
import copy
import os

from hypothesis import strategies as st

from .. import plotgen, refread
from ..harness import qcall, snapshot, snapshot_diff
from . import common

ID = "C06"
LEVEL = "exploration"
BUDGET = {"quick": 3900, "thorough": 250000}
TECHNIQUE = "property-based testing: pairs of generated plotfiles on one mesh with independent layouts; independent reader + concat-by-index-range model"
RULE = ("Hypothesis-generated 3D mesh (1-3 nested levels, mixed extents, non-zero origin, anisotropic) instantiated "
        "twice with independent field lists (overlapping names), payloads (incl. special floats) and binary layouts "
        "(single / scattered / non-monotone, classes of the pair recorded) x vars1 in {None, space separated names} "
        "x vars2 in {None, name list} (unknown names included); oracle = taste + independent reader + model "
        "`fields(sel1) ++ fields(sel2 minus sel1)` concatenated box by box by index range, min/max rows likewise. "
        "Negative half (~20%): second input with one level less, a removed box, a split box, or all boxes moved by one coarse cell on a far-placed domain (bounds equal to 1e-5 relative) must be refused with "
        "nothing written; a pair listing the same boxes in another header order may be refused (nothing written) or "
        "One selection in six names a field twice (either-rule: refused, or each name once with its own source data). combined correctly. Non-trivial = the two layouts differ or one is non-monotone, or a selection drops / "
        "reorders fields, or a negative case.")
ASSUMPTIONS = ["selections are given as a space-separated string or a list on either side, through the function and through the command line"]


@st.composite
def cases(draw, tier="quick"):
    spec = draw(plotgen.plot_specs(thin=True, level_prefix=True, ndims=3, max_cells=2500 if tier == "quick" else 8000, max_fields=4,
                                   payload_kinds=("coded", "random", "special")))
    f1 = spec["fields"]
    pool = [p for p in plotgen.FIELD_POOL]
    n2 = draw(st.integers(1, 4))
    idx = draw(st.lists(st.integers(0, len(pool) - 1), min_size=n2, max_size=n2, unique=True))
    f2 = [pool[i] for i in idx]
    if all(f in f1 for f in f2):
        f2.append(next(p for p in pool if p not in f1 and p not in f2))
    layout2 = draw(plotgen.layouts())
    payload2 = draw(plotgen.payloads(("random", "coded", "special")))

    def sel(names):
        if draw(st.booleans()):
            return None
        k = draw(st.lists(st.integers(0, len(names) - 1), min_size=1, max_size=len(names), unique=True))
        out = [names[i] for i in k]
        if draw(st.integers(0, 4)) == 0:
            out.insert(draw(st.integers(0, len(out))), "nope")
        if draw(st.integers(0, 5)) == 0:
            # a name given twice
            out.insert(draw(st.integers(0, len(out))), out[draw(st.integers(0, len(out) - 1))])
        return out
    vars1, vars2 = sel(f1), sel(f2)
    neg = draw(st.sampled_from([None] * 5 + ["levels", "removed", "split", "header_order", "moved", "view_levels"]))
    nlev = spec["mesh"]["nlev"]
    code = st.lists(st.integers(0, 7), max_size=4)
    # task start / completion orders of the per-file workers of each level (empty = submission order)
    sched = dict(exec=[draw(code) for _ in range(nlev)], comp=[draw(code) for _ in range(nlev)], lazy=draw(st.booleans()))
    return dict(spec=spec, fields2=f2, layout2=layout2, payload2=payload2, vars1=vars1, vars2=vars2, neg=neg,
                same_layout=draw(st.sampled_from([False, False, False, True])), sched=sched,
                how=draw(st.sampled_from(["api", "api", "cli", "api_swapped_types", "api_limited"])),
                limit=draw(st.integers(0, nlev - 1)),
                # level directory names of the second input: as the first (None), the default, or other ones
                prefix2=draw(st.sampled_from([None, None, None, "Level_", "Lev_", "lvl"])))


def compact(case):
    return dict(mesh=case["spec"]["mesh"], fields1=case["spec"]["fields"], fields2=case["fields2"],
                layout2=case["layout2"], vars1=case["vars1"], vars2=case["vars2"], neg=case["neg"])


def second_spec(case):
    s2 = copy.deepcopy(case["spec"])
    s2["fields"] = list(case["fields2"])
    s2["payload"] = case["payload2"]
    if not case.get("same_layout"):
        s2["layout_override"] = case["layout2"]
    if case.get("prefix2"):
        s2["level_prefix"] = case["prefix2"]
    return s2


def make_negative(case, s2):
    """Returns (spec2, applied kind or None)."""
    neg = case["neg"]
    mesh = s2["mesh"]
    if neg == "levels":
        if mesh["nlev"] < 2:
            return s2, None
        mesh["nlev"] -= 1
        mesh["rects"] = mesh["rects"][:mesh["nlev"] - 1]
        return s2, neg
    if neg == "view_levels":
        # the same plotfile pair, but the first reader is opened with a level limit below the finest level and the second
        # without: the two readers expose different level counts
        return (s2, neg) if mesh["nlev"] >= 2 else (s2, None)
    if neg == "moved":
        # the same boxes one level-0 cell further along x (index space and stated bounds), on a domain placed so far from
        # the origin that the stated bounds of the two meshes agree to 1e-5 relative: the meshes differ all the same
        s2["index_shift"] = [1, 0, 0]
        return s2, neg
    if neg == "header_order":
        mesh["order_seed"] = mesh["order_seed"] + 1
        a = plotgen.build_mesh(case["spec"]["mesh"])
        b = plotgen.build_mesh(mesh)
        if all(x["boxes"] == y["boxes"] for x, y in zip(a, b)):
            return s2, None
        return s2, neg
    levels = plotgen.build_mesh(mesh)
    top = levels[-1]
    if neg == "removed":
        if len(levels) < 2 or len(top["boxes"]) < 2:
            return s2, None
        top["boxes"] = top["boxes"][:-1]
    elif neg == "split":
        bf = mesh["bf"]
        for i, (lo, hi) in enumerate(top["boxes"]):
            ext = hi[0] - lo[0] + 1
            if ext >= 2 * bf:
                mid = lo[0] + bf * (ext // bf // 2)
                a = (list(lo), [mid - 1] + list(hi[1:]))
                b = ([mid] + list(lo[1:]), list(hi))
                top["boxes"] = top["boxes"][:i] + [a, b] + top["boxes"][i + 1:]
                break
        else:
            return s2, None
    for l, lv in enumerate(levels):
        lv["files"], lv["order"] = plotgen.assign_layout(case["layout2"], len(lv["boxes"]), l)
    s2["levels"] = levels
    s2.pop("layout_override", None)
    return s2, neg


def check_case(case, ctx):
    from amr_kitchen import PlotfileCooker
    from amr_kitchen.combine import combine
    ctx.fresh()
    if case["neg"] == "moved":
        case = copy.deepcopy(case)
        g = case["spec"]["geom"]
        g["origin"] = [3e5 * x for x in g["lengths"]]
    p1 = plotgen.Plot(case["spec"])
    s2 = second_spec(case)
    neg = None
    if case["neg"]:
        s2, neg = make_negative(case, s2)
    p2 = plotgen.Plot(s2)
    plotgen.write(p1, "in1")
    plotgen.write(p2, "in2")
    l1, l2 = p1.labels(), p2.labels()
    ctx.label(*l1)
    cls = lambda labs: "nonmono" if "non-monotone" in labs else ("scattered" if "scattered" in labs else "single")
    same_files = all(a["files"] == b["files"] and a["order"] == b["order"] for a, b in zip(p1.levels, p2.levels)) \
        if p1.nlev == p2.nlev and all(len(a["boxes"]) == len(b["boxes"]) for a, b in zip(p1.levels, p2.levels)) else False
    ctx.label(f"layouts:{cls(l1)}/{cls(l2)}" + ("(same)" if same_files else ""))
    ctx.label("neg:" + str(neg))
    vars1 = None if case["vars1"] is None else " ".join(case["vars1"])
    vars2 = case["vars2"]
    sel1 = list(p1.fields) if case["vars1"] is None else [v for v in case["vars1"] if v in p1.fields]
    sel2 = list(p2.fields) if vars2 is None else [v for v in vars2 if v in p2.fields]
    # a selection naming a field twice: the pair may be refused or combined with each name once
    repeats = len(set(sel1)) < len(sel1) or len(set(sel2)) < len(sel2)
    sel1, sel2 = list(dict.fromkeys(sel1)), list(dict.fromkeys(sel2))
    sel2 = [v for v in sel2 if v not in sel1]
    if repeats:
        ctx.label("selection-repeats-a-name")
    if not sel1 or not sel2:
        ctx.label("empty-selection (outside the statement)")
        return []
    ctx.nontrivial((not same_files) or "non-monotone" in l1 + l2 or neg is not None
                   or sel1 != p1.fields or sel2 != p2.fields)
    snaps = (snapshot("in1"), snapshot("in2"))
    v = []
    from .. import pools
    if neg is None and case.get("limit", 0) % 3 == 0 and not repeats:
        # second use: the output directory already holds an older result (every field of both inputs)
        ctx.label("output-directory-holds-an-older-result")
        try:
            qcall(combine, qcall(PlotfileCooker, "in1"), qcall(PlotfileCooker, "in2"), pltout="out")
        except Exception as e:
            return [f"combine raised {type(e).__name__}: {str(e)[:200]} (all fields)"]
    sched = pools.set_schedule(case.get("sched"))
    try:
        how = case.get("how", "api")
        if neg == "view_levels" and how == "cli":
            how = "api"
        ctx.label("how:" + how)
        if how == "cli":
            import amr_kitchen.combine.cli as cli
            argv = ["combine", "-p1", "in1", "-p2", "in2", "-o", "out"]
            argv += ["-v1", vars1] if vars1 is not None else []
            argv += ["-v2", " ".join(vars2)] if vars2 is not None else []
            common.run_main(cli.main, argv)
        else:
            # api_limited: both readers opened with the same level limit (views of levels 0..L of deeper files)
            lim = min(case.get("limit", 0), p1.nlev - 1, p2.nlev - 1) if how == "api_limited" and neg is None else None
            if neg == "view_levels":
                lims = (case.get("limit", 0) % (p1.nlev - 1), None)
                lims = lims[::-1] if case.get("limit", 0) % 2 else lims
                pck1 = qcall(PlotfileCooker, "in1", limit_level=lims[0])
                pck2 = qcall(PlotfileCooker, "in2", limit_level=lims[1])
            else:
                pck1 = qcall(PlotfileCooker, "in1", limit_level=lim)
                pck2 = qcall(PlotfileCooker, "in2", limit_level=lim)
            if lim is not None and lim < p1.nlev - 1:
                ctx.label("readers-limited-below-finest")
            if how == "api_swapped_types":      # a list for the first side, a string for the second
                qcall(combine, pck1, pck2, pltout="out", vars1=None if vars1 is None else vars1.split(),
                      vars2=None if vars2 is None else " ".join(vars2))
            else:
                qcall(combine, pck1, pck2, pltout="out", vars1=vars1, vars2=vars2)
        raised = None
    except Exception as e:
        raised = e
    finally:
        pools.set_schedule(None)
    if sched.nonidentity_calls():
        ctx.label("schedule:non-identity")
    for name, s in zip(("in1", "in2"), snaps):
        d = snapshot_diff(s, snapshot(name))
        if d:
            v.append(f"input {name} was modified: {d[:3]}")
    if neg in ("levels", "removed", "split", "moved", "view_levels"):
        if raised is None:
            v.append(f"inputs whose {neg} differ were combined instead of refused")
        if os.path.lexists("out"):
            v.append(f"inputs differ ({neg}) but output was (partly) written before the refusal: {sorted(os.listdir('out'))[:4]}")
        return v
    if neg == "header_order" and raised is not None:
        if os.path.lexists("out"):
            v.append("pair refused (header order) after output was (partly) written")
        return v
    if raised is not None and repeats and neg is None:
        # (the statement promises "before anything is written" for inputs whose levels or boxes differ, not for this refusal:
        #  the unchanged tree refuses it after creating the empty output directories - not asserted)
        ctx.label("selection-repeats-a-name:refused")
        return v
    if raised is not None:
        return v + [f"combine raised {type(raised).__name__}: {str(raised)[:200]}"]
    v += common.taste_accepts("out")
    a = refread.read_plotfile("in1")
    b = refread.read_plotfile("in2")
    out, msgs = common.read_output("out")
    if out is None:
        return v + msgs
    ma, mb = common.Model.from_ref(a), common.Model.from_ref(b)
    if case.get("how") == "api_limited" and neg is None:
        lim = min(case.get("limit", 0), p1.nlev - 1, p2.nlev - 1)
        ma, mb = ma.select(list(range(len(ma.fields))), lim), mb.select(list(range(len(mb.fields))), lim)
    m = ma.concat(mb, [p1.fields.index(n) for n in sel1], [p2.fields.index(n) for n in sel2])
    v += common.compare_model(m, out, time=(p1.time == p2.time))
    return v
