"""C09 - pestle integrates every point of the domain exactly once."""
import copy
import math
import re
import sys

import numpy as np
from hypothesis import strategies as st

from .. import plotgen
from ..harness import qcall

ID = "C09"
LEVEL = "exploration"
BUDGET = {"quick": 2400, "thorough": 140000}
TECHNIQUE = "property-based testing: reference sum over uncovered cells (math.fsum) from the generator's coverage masks; metamorphic cross-checks (constant 1 = volume, re-layout invariance)"
RULE = ("Hypothesis-generated nested 3D plotfiles with even blocking factor (2, 4, 8), mixed box extents (weighted "
        "towards meshes whose smallest extent is not the alignment, e.g. 16 and 24, or boxes offset by half the "
        "smallest box), partial refinement, anisotropic cells, 1-4 levels, any binary layout x field (mixed-sign "
        "random, polynomial x*y+z, constant 1; in two thirds of the cases NaN / +-inf / 1e300 stored in the cells lying under a finer selected level) x level limit passed three ways (reader limit, volume_integral "
        "argument, the pestle CLI with -l) x volFrac on/off. Oracle: sum over cells not covered by a finer selected "
        "level of value*dV(*volFrac), rel. tol 1e-10 of sum|v|dV; constant 1 integrates to the domain volume; the same "
        "data in another binary layout gives the same integral; one reader object integrated again and again with other limits and fields (deepest first, then every shallower limit, then back up) answers like a fresh one each time. Non-trivial = >= 2 levels with partial refinement "
        "and (mixed extents or limit < finest).")
ASSUMPTIONS = ["fields scaled so that sum|v|dV ~ 1 (the CLI prints 15 decimals)"]

FIELDS = ["q", "poly", "one", "volFrac"]


def _payload_pestle(plot, l, lo, hi):
    idx = plotgen._index_grids(lo, hi)
    c = [plot.geo_lo[d] + (idx[d] + 0.5) * plot.dx[l][d] for d in range(3)]
    vol = float(np.prod([plot.geo_hi[d] - plot.geo_lo[d] for d in range(3)]))
    r = plotgen._box_rng(plot, l, lo)
    shp = idx[0].shape
    cols = dict(q=r.uniform(-1.0, 1.0, size=shp) / vol,
                poly=(c[0] * c[1] + c[2]) / (vol * max(1.0, max(abs(x) for x in plot.geo_lo + plot.geo_hi)) ** 2),
                one=np.ones(shp), volFrac=r.uniform(0.0, 1.0, size=shp))
    junk = plot.payload.get("junk")
    if junk is not None and l < plot.payload.get("junk_below", 0):
        # whatever a covered cell holds is irrelevant to the statement: cells under the next (selected) level hold junk
        cov = plot.covered_mask(l, l + 1)[tuple(slice(lo[d], hi[d] + 1) for d in range(3))]
        val = {"nan": np.nan, "inf": np.inf, "-inf": -np.inf, "huge": 1e300}[junk]
        for f in ("q", "poly", "one") + (("volFrac",) if plot.payload.get("junk_vf") else ()):
            cols[f] = np.where(cov, val, cols[f])
    return np.stack([cols[f] for f in plot.fields], axis=-1)


plotgen.PAYLOADS["pestle"] = _payload_pestle


@st.composite
def cases(draw, tier="quick"):
    nu = draw(st.sampled_from([True, True, False]))
    spec = draw(plotgen.plot_specs(level_prefix=True, ndims=3, min_levels=draw(st.sampled_from([2, 1, 2, 3])), max_levels=4,
                                   max_cells=2000 if tier == "quick" else 6000, force_no_unit=nu,
                                   fields=["q"], payload_kinds=("coded",), origin=True, aniso=True))
    m = spec["mesh"]
    if m["nlev"] == 4:
        m["nb0"] = [min(n, 2) for n in m["nb0"]]
    has_vf = draw(st.booleans())
    spec["fields"] = [f for f in FIELDS if f != "volFrac" or has_vf]
    spec["payload"] = dict(kind="pestle", seed=draw(st.integers(0, 9999)))
    nlev = m["nlev"]
    limit = draw(st.one_of(st.none(), st.integers(0, nlev - 1)))
    junk = [None, None, "nan", "inf", "-inf", "huge"][draw(st.integers(0, 2 ** 16)) % 6]
    if junk is not None:
        # non-finite / huge values in the cells of levels < L that lie under the next level (all selected, so never counted)
        spec["payload"].update(junk=junk, junk_below=nlev - 1 if limit is None else limit, junk_vf=draw(st.booleans()))
    return dict(spec=spec, field=draw(st.integers(0, 2)), limit=limit,
                how=draw(st.sampled_from(["reader", "argument", "cli", "argument"])), volfrac=draw(st.booleans()),
                layout2=draw(plotgen.layouts()))


def compact(case):
    return dict(mesh=case["spec"]["mesh"], geom=case["spec"]["geom"], fields=case["spec"]["fields"],
                field=case["field"], limit=case["limit"], how=case["how"], volfrac=case["volfrac"])


def reference_integral(plot, fi, L, vi=None):
    terms = []
    absum = []
    for l in range(L + 1):
        dV = float(np.prod(plot.dx[l]))
        cov = plot.covered_mask(l, L)
        for b, (lo, hi) in enumerate(plot.levels[l]["boxes"]):
            sl = tuple(slice(lo[d], hi[d] + 1) for d in range(3))
            d = plot.box_data(l, b)
            vals = d[..., fi] * (d[..., vi] if vi is not None else 1.0)
            keep = ~cov[sl]
            terms.append(math.fsum(vals[keep].tolist()) * dV)
            absum.append(math.fsum(np.abs(vals[keep]).tolist()) * dV)
    return math.fsum(terms), math.fsum(absum)


def run_pestle(path, field, limit, how, volfrac):
    from amr_kitchen import PlotfileCooker
    from amr_kitchen.pestle import volume_integral
    if how == "cli":
        import contextlib
        import io
        import amr_kitchen.pestle.cli as cli
        argv = ["pestle", "-v", field] + (["-l", str(limit)] if limit is not None else []) + (["-vf"] if volfrac else []) + [path]
        old = sys.argv
        sys.argv = argv
        buf = io.StringIO()
        try:
            with contextlib.redirect_stdout(buf), contextlib.redirect_stderr(io.StringIO()):
                cli.main()
        except SystemExit as e:
            if e.code not in (None, 0):
                raise RuntimeError(f"pestle exited with status {e.code}")
        finally:
            sys.argv = old
        m = re.search(r"Volume integral of .* in plotfile: (\S+)", buf.getvalue())
        if not m:
            raise RuntimeError("pestle printed no result line: " + buf.getvalue()[-200:])
        return float(m.group(1))
    if how == "reader":
        pck = qcall(PlotfileCooker, path, limit_level=limit, ghost=True)
        return float(qcall(volume_integral, pck, field, use_volfrac=volfrac))
    pck = qcall(PlotfileCooker, path, ghost=True)
    return float(qcall(volume_integral, pck, field, limit_level=limit, use_volfrac=volfrac))


def check_case(case, ctx):
    ctx.fresh()
    plot = plotgen.Plot(case["spec"])
    from ..harness import VIAS, place_plotfile
    import zlib as _z, json as _j
    via = VIAS[_z.crc32(_j.dumps(case["spec"]["mesh"], sort_keys=True).encode()) % len(VIAS)]
    src = place_plotfile(lambda pth: plotgen.write(plot, pth), via)
    if via:
        ctx.label("path:" + via)
    labs = plot.labels()
    limit = case["limit"]
    L = plot.nlev - 1 if limit is None else limit
    ctx.label(*labs, "how:" + case["how"], f"bf{case['spec']['mesh']['bf']}")
    if case["spec"]["payload"].get("junk") and L >= 1:
        ctx.label("junk-in-covered-cells:" + case["spec"]["payload"]["junk"])
    ctx.nontrivial(plot.nlev >= 2 and "partial-refinement" in labs and ("mixed-extents" in labs or L < plot.nlev - 1))
    name = plot.fields[case["field"]]
    has_vf = "volFrac" in plot.fields
    vi = plot.fields.index("volFrac") if (case["volfrac"] and has_vf) else None
    exp, scale = reference_integral(plot, case["field"], L, vi)
    what = f"(field {name}, limit {limit} passed via {case['how']}, volfrac={case['volfrac']}, volFrac field present={has_vf})"
    v = []
    try:
        got = run_pestle(src, name, limit, case["how"], case["volfrac"])
    except Exception as e:
        return [f"pestle raised {type(e).__name__}: {e} {what}"]
    tol = 1e-10 * scale + (1e-15 if case["how"] == "cli" else 0.0)
    if not abs(got - exp) <= tol:
        v.append(f"integral {got!r} != reference {exp!r} (sum|v|dV = {scale!r}, relative error "
                 f"{abs(got - exp) / max(scale, 1e-300):.3e}) {what}")
        return v
    # every point counted once: the constant 1 integrates to the domain volume (times volFrac never applies here)
    if vi is None:
        vol = float(np.prod([plot.geo_hi[d] - plot.geo_lo[d] for d in range(3)]))
        try:
            one = run_pestle(src, "one", limit, "argument" if case["how"] == "cli" else case["how"], False)
            if not abs(one - vol) <= 1e-10 * vol:
                v.append(f"integral of the constant 1 is {one!r}, domain volume {vol!r} (limit {limit})")
        except Exception as e:
            v.append(f"pestle raised {type(e).__name__}: {e} on the constant field")
    # history: one reader object integrated several times with other limits (deepest first, then every shallower limit,
    # then back up, alternating the field): every answer is the answer a fresh reader gives
    if plot.nlev >= 2 and not v and not case["spec"]["payload"].get("junk"):
        # (junk is only placed under the levels of this case's own limit: other limits would uncover it)
        ctx.label("history:one-reader-several-limits")
        from amr_kitchen import PlotfileCooker
        from amr_kitchen.pestle import volume_integral
        try:
            pck = qcall(PlotfileCooker, src, ghost=True)
            seq = [None] + list(range(plot.nlev - 2, -1, -1)) + list(range(1, plot.nlev))
            for step, lim in enumerate(seq):
                fi = case["field"] if step % 2 == 0 else (case["field"] + 1) % min(3, len(plot.fields))
                Lh = plot.nlev - 1 if lim is None else lim
                exp_h, scale_h = reference_integral(plot, fi, Lh, vi)
                got_h = float(qcall(volume_integral, pck, plot.fields[fi], limit_level=lim, use_volfrac=case["volfrac"]))
                if not abs(got_h - exp_h) <= 1e-10 * scale_h:
                    v.append(f"call {step + 1} on one reader object (limits so far {seq[:step + 1]}): integral of {plot.fields[fi]} "
                             f"with limit {lim} is {got_h!r}, reference {exp_h!r} (relative error "
                             f"{abs(got_h - exp_h) / max(scale_h, 1e-300):.3e}, volfrac={case['volfrac']})")
                    break
        except Exception as e:
            v.append(f"re-using one reader object raised {type(e).__name__}: {e}")
    # same data, other binary layout
    s2 = copy.deepcopy(case["spec"])
    s2["layout_override"] = case["layout2"]
    plotgen.write(plotgen.Plot(s2), "src2")
    try:
        got2 = run_pestle("src2", name, limit, "argument" if case["how"] == "cli" else case["how"], case["volfrac"])
        if not abs(got2 - exp) <= 1e-10 * scale:
            v.append(f"integral changes with the binary layout: {got2!r} vs {got!r} {what}")
    except Exception as e:
        v.append(f"pestle raised {type(e).__name__}: {e} on the re-laid-out copy")
    return v
