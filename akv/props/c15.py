"""C15 - level iteration yields every box exactly once, whatever the schedule."""
import itertools

import numpy as np
from hypothesis import strategies as st

from .. import plotgen, pools, refread
from ..harness import qcall
from .c01 import box_arg, box_selectors, field_arg, field_selectors

ID = "C15"
LEVEL = "exploration"
BUDGET = {"quick": 3000, "thorough": 200000}
TECHNIQUE = "property-based testing with a schedule-owning pool: multiset / ordered equality against the generator's payload"
RULE = ("Hypothesis-generated 2D/3D plotfiles (any layout, special-float payloads) x field selector (listed forms) "
        "x level x execution order of the per-file read tasks (all n! orders and both eager/lazy modes when the "
        "level has <= 4 binary files, a drawn order beyond) for `for box in pck[f][lv]`, compared as a multiset of "
        "(shape, bytes) with every stored box; plus `.iter(sel)` for slice/list/mask selections compared in order. "
        "One plotfile in 25 has a level of 66-90 boxes with one binary file each. Non-trivial = >= 2 binary files at the level with >= 2 boxes in one of them.")
ASSUMPTIONS = ["schedule-owning in-process pool is faithful to ordered-pool semantics (results in submission order, arguments pickled)"]


@st.composite
def cases(draw, tier="quick"):
    spec = draw(plotgen.plot_specs(thin=True, many=True, level_prefix=True, max_cells=3000 if tier == "quick" else 10000, max_fields=6,
                                   payload_kinds=("special", "coded", "random"),
                                   layouts=("scatter", "nonmono", "single")))
    if draw(st.integers(0, 2 ** 16)) % 25 == 0:
        # a level of 66 to 90 small boxes with one binary file each (more files than any batch or group size one might pick)
        nd = spec["mesh"]["ndims"]
        nb0 = [draw(st.sampled_from([11, 9, 10])), draw(st.sampled_from([6, 8, 9]))] + ([1] if nd == 3 else [])
        spec["mesh"].update(bf=2, m=1, nb0=nb0, nlev=1, rects=[], chop_seed=0, thin0=0, no_unit=False, full=False,
                            layout=dict(cls="perbox", seed=0, nfiles=1))
        spec.pop("layout_override", None)
        spec["many_files"] = True
    plot = plotgen.Plot(spec)
    limit = draw(st.one_of(st.none(), st.integers(0, plot.nlev - 1)))
    L = plot.nlev - 1 if limit is None else limit
    qs = []
    for _ in range(draw(st.integers(2, 5))):
        lv = draw(st.integers(0, L))
        nb = len(plot.levels[lv]["boxes"])
        code = st.lists(st.integers(0, 7), max_size=8)
        qs.append(dict(f=draw(field_selectors(plot.nf)), lv=lv, b=draw(box_selectors(nb)),
                       sched=dict(exec=[draw(code)], comp=[draw(code)], lazy=draw(st.booleans()))))
    return dict(spec=spec, limit=limit, queries=qs)


def compact(case):
    return dict(mesh=case["spec"]["mesh"], nfields=len(case["spec"]["fields"]), queries=case["queries"][:3])


def _multiset(arrs):
    return sorted((a.shape, np.ascontiguousarray(a).tobytes()) for a in arrs)


def check_case(case, ctx):
    from amr_kitchen import PlotfileCooker
    ctx.fresh()
    plot = plotgen.Plot(case["spec"])
    from ..harness import VIAS, place_plotfile
    import zlib as _z, json as _j
    via = VIAS[_z.crc32(_j.dumps(case["spec"]["mesh"], sort_keys=True).encode()) % len(VIAS)]
    src = place_plotfile(lambda pth: plotgen.write(plot, pth), via)
    if via:
        ctx.label("path:" + via)
    names = plot.fields
    labs = plot.labels()
    if case["spec"].get("many_files"):
        ctx.label("one-file-per-box(66-90 files)")
    ctx.label(*labs)
    try:
        pck = qcall(PlotfileCooker, src, limit_level=case["limit"])
    except Exception as e:
        return [f"opening a well-formed plotfile raised {type(e).__name__}: {e}"]
    v = []
    for qi, q in enumerate(case["queries"]):
        fobj, fidx, fmust, fsingle = field_arg(q["f"], names)
        lv = q["lv"]
        try:
            exp_f = None if fidx is None else np.arange(plot.nf)[fidx]
            if np.size(exp_f) == 0:
                exp_f = None
        except IndexError:
            exp_f = None
        if exp_f is None:
            continue            # selections that cannot be honoured are C01's business
        lev = plot.levels[lv]
        nb = len(lev["boxes"])
        nfiles = len(set(lev["files"]))
        seqs = plot.disk_sequence(lv)
        ctx.nontrivial(nfiles >= 2 and max(len(s) for s in seqs.values()) >= 2)
        expected = [plot.box_data(lv, b)[..., int(exp_f)] if fsingle else plot.box_data(lv, b)[..., exp_f] for b in range(nb)]
        exp_ms = _multiset(expected)
        if nfiles <= 4:
            scheds = [dict(exec=[list(code)], lazy=lz) for code in _all_codes(nfiles) for lz in (False, True)]
            ctx.label("orders:exhaustive")
        else:
            scheds = [q["sched"], dict(exec=[[]], lazy=False)]
            ctx.label("orders:drawn")
        desc = f"query {qi} iterate pck[{q['f']}][{lv}]"
        for sc in scheds:
            sched = pools.set_schedule(sc)
            try:
                got = qcall(lambda: list(pck[fobj][lv]))
            except Exception as e:
                if fmust:
                    v.append(f"{desc} schedule {sc}: raised {type(e).__name__}: {e}")
                break
            finally:
                pools.set_schedule(None)
            if not all(isinstance(g, np.ndarray) for g in got):
                v.append(f"{desc}: yielded a non-array")
                break
            if _multiset(got) != exp_ms:
                v.append(f"{desc} schedule exec={sched.log[:1]} lazy={sc.get('lazy')}: yielded {len(got)} boxes, "
                         f"not every stored box exactly once with its exact data ({nb} boxes in {nfiles} files)")
                break
        # history: a level object that has already answered a single-box read and a one-box .iter() still iterates right
        if fmust and qi % 2 == 0:
            ctx.label("history:stream-reused")
            try:
                stream = qcall(lambda: pck[fobj][lv])
                qcall(lambda: stream[nb - 1])
                qcall(lambda: list(stream.iter(0)))
                got = qcall(lambda: list(stream))
                if not all(isinstance(g, np.ndarray) for g in got) or _multiset(got) != exp_ms:
                    v.append(f"{desc}: after a single-box read and a one-box .iter() through the same level object, iterating "
                             f"it no longer yields every stored box exactly once with its exact data")
            except Exception as e:
                v.append(f"{desc}: re-using one level object (box read, .iter(0), iteration) raised {type(e).__name__}: {e}")
        # on-demand iterator over a box selection: ordered
        bobj, bidx, bmust, bsingle = box_arg(q["b"], nb)
        try:
            exp_b = np.arange(nb)[bidx]
        except IndexError:
            continue
        if bsingle or q["b"]["k"] == "int32":
            continue
        want = [expected[int(b)] for b in np.atleast_1d(exp_b)]
        # tasks may start AND finish in any order: the drawn order, and the fully reversed one
        rev = list(range(len(want) - 1, -1, -1))
        for sc in (dict(exec=q["sched"]["exec"], comp=q["sched"]["exec"], lazy=q["sched"]["lazy"]),
                   dict(exec=[rev], comp=[rev], lazy=False)):
            pools.set_schedule(sc)
            try:
                got = qcall(lambda: list(pck[fobj][lv].iter(bobj)))
            except Exception as e:
                if fmust and bmust:
                    v.append(f"query {qi} pck[..][{lv}].iter({q['b']}): raised {type(e).__name__}: {e}")
                break
            finally:
                pools.set_schedule(None)
            if len(got) != len(want) or not all(isinstance(g, np.ndarray) and refread.same_bits(g, w) for g, w in zip(got, want)):
                v.append(f"query {qi} pck[{q['f']}][{lv}].iter({q['b']}) with task order {sc['exec']}: does not yield the "
                         f"selected boxes in the requested order")
                break
        ctx.label("iter:" + q["b"]["k"])
    return v


def _all_codes(n):
    """selection codes of all n! permutations"""
    return itertools.product(*[range(n - j) for j in range(n)])
