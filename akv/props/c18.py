"""C18 - header-only tools report what the full reader holds."""
import contextlib
import copy
import io
import math
import os
import pickle
import re
import sys

import numpy as np
from hypothesis import strategies as st

from .. import plotgen, refread
from ..harness import qcall, snapshot, snapshot_diff

ID = "C18"
LEVEL = "exploration"
BUDGET = {"quick": 4800, "thorough": 450000}
TECHNIQUE = "property-based testing: captured stdout of the entry points parsed and compared with the header tables; pickle round trip against a fresh reader"
RULE = ("Hypothesis-generated 2D/3D plotfiles (1-9 fields, odd and even counts, with / without Y(...) species, known "
        "PeleLMeX names and unknown names that are prefixes of each other or contain regex metacharacters, negative / "
        "zero / tiny / inf / nan times, special-float payloads so that per-box tables hold nan / inf, 1-3 levels) x "
        "menu option set {default, min_max, finest_lv, description, every, has_var and combinations}: minuterie's "
        "printed time == header time; default listing names every header field exactly once by class key or own "
        "name, species once more in the species block; min/max table has exactly one row per field whose numbers "
        "parse to the 3-significant-digit extrema of the header tables (all levels / finest level); marinate (3D): "
        "unpickled reader has equal metadata and reads bit-identical boxes, .pkl beside the input. "
        "After the plotfile is rewritten on the same mesh, marinate runs again and must reflect the data on disk. Non-trivial = odd field count >= 3, or no species, or names related by prefix / metacharacters, or a "
        "non-finite time / extremum.")
ASSUMPTIONS = ["classification of the few known names in the generator's pool follows the PeleLMeX naming listed in the README (own small table, not menu's regex table)"]

KNOWN = {"temp": "temp", "density": "density", "x_velocity": "velocity", "y_velocity": "velocity",
         "z_velocity": "velocity", "mag_vort": "mag_vort", "rhoh": "rhoh", "HeatRelease": "HeatRelease",
         "volFrac": "volFrac", "Y(H2)": "Y", "Y(O2)": "Y", "Y(N2)": "Y", "Y(CH2(S))": "Y", "Y(YC7H15)": "Y", "Y(C7H15)": "Y",
         "Y((CH3)2O)": "Y", "divu": "divu",
         "I_R(H2)": "I_R", "gradpx": "gradp"}
UNKNOWN = ["phi", "phi2", "a", "banana", "foo_bar", "pressure", "avg.p", "we(ird", "x+y", "T[0]", "Temp", "densit"]
POOL = list(KNOWN) + UNKNOWN
TIMES = plotgen.TIMES + [float("inf"), float("-inf"), float("nan"), -1e-300]
_ORIG = {}


@st.composite
def cases(draw, tier="quick"):
    nf = draw(st.integers(1, 9))
    idx = draw(st.lists(st.integers(0, len(POOL) - 1), min_size=nf, max_size=nf, unique=True))
    fields = [POOL[i] for i in idx]
    dup = draw(st.integers(0, 2 ** 16)) % 6 == 0
    if dup:
        # a header that states a name twice (the reader numbers the repeat; menu's listing reads the header itself and
        # must not show an invented name).  Only the listings are asserted for such headers: which row of a min/max
        # table belongs to which of two equally named fields is not something the statement settles.
        fields.insert(draw(st.integers(0, len(fields))), fields[draw(st.integers(0, len(fields) - 1))])
    if draw(st.sampled_from([False, False, True])):
        fields = [f for f in fields if not f.startswith("Y(")] or ["phi"]
    spec = draw(plotgen.plot_specs(thin=True, level_prefix=True, max_cells=1200 if tier == "quick" else 4000, fields=fields,
                                   payload_kinds=("random", "special", "sparse", "sparse")))
    spec["time"] = draw(st.sampled_from(TIMES))
    opts = draw(st.sampled_from([dict(), dict(min_max=True), dict(finest_lv=True), dict(min_max=True, finest_lv=True),
                                 dict(description=True), dict(every=True), dict(has_var=True),
                                 dict(min_max=True, description=True), dict(), dict(min_max=True)]))
    if dup:
        opts = dict(description=True) if opts.get("description") else dict()
    # directory names with dots (time stamps, .old copies) beside the usual one
    return dict(spec=spec, opts=opts, slash=draw(st.booleans()),
                pname=draw(st.sampled_from(["plt00100", "plt00100", "plt_t0.25", "plt00100.old", "plt.a.b"])))


def compact(case):
    return dict(fields=case["spec"]["fields"], time=repr(case["spec"]["time"]), nlev=case["spec"]["mesh"]["nlev"],
                ndims=case["spec"]["mesh"]["ndims"], opts=case["opts"])


def capture(f, *a, **k):
    buf = io.StringIO()
    with contextlib.redirect_stdout(buf), contextlib.redirect_stderr(io.StringIO()):
        f(*a, **k)
    return buf.getvalue()


def _same(a, b):
    return a == b or (isinstance(a, float) and isinstance(b, float) and math.isnan(a) and math.isnan(b))


def check_minuterie(plot, v, pname="plt00100"):
    import amr_kitchen.minuterie as minuterie
    old = sys.argv
    sys.argv = ["minuterie", pname]
    try:
        out = capture(minuterie.main)
    except BaseException as e:
        v.append(f"minuterie raised {type(e).__name__}: {e} (header time {plot.time!r})")
        return
    finally:
        sys.argv = old
    m = re.search(r"Plotfile time\s*=\s*(\S+)", out)
    if not m:
        v.append(f"minuterie printed no time: {out!r}")
        return
    try:
        t = float(m.group(1))
    except ValueError:
        v.append(f"minuterie printed an unparsable time {m.group(1)!r}")
        return
    if not _same(t, plot.time):
        v.append(f"minuterie printed {t!r}, header time is {plot.time!r}")


_CAP = re.compile(r"^\+-*\+")


def parse_blocks(out):
    """default menu output -> {title: [lines between the two caps]}"""
    blocks = {}
    lines = out.split("\n")
    i = 0
    while i < len(lines):
        if lines[i].strip().endswith(":") and i + 1 < len(lines) and _CAP.match(lines[i + 1]):
            j = i + 2
            body = []
            while j < len(lines) and not _CAP.match(lines[j]):
                body.append(lines[j])
                j += 1
            blocks[lines[i].strip()] = body
            i = j + 1
        else:
            i += 1
    return blocks


def fmt3(x):
    return float("{:.3}".format(float(x)))


def check_minmax_table(out, pname, opts, fields, case, v):
    """menu's min/max table against the per-box tables of the level headers -> True if a non-finite extremum was involved"""
    nonfinite_x = False
    ref = refread.read_plotfile(pname, data=False)
    levels = [ref["levels"][-1]] if opts.get("finest_lv") else ref["levels"]
    rows = {}
    lines = out.split("\n")
    start = next((i for i, l in enumerate(lines) if "Mins and Maxs" in l), None)
    table = []
    if start is not None:
        caps = 0
        for l in lines[start + 1:]:
            if _CAP.match(l):
                caps += 1
                if caps == 3:
                    break
            elif caps == 2:
                table.append(l)
    for line in table:
        for half in line.split("\t"):
            m = re.match(r"^(\S.*?)\s+:\s+(\S+)\s+(\S+)\s+(\[.*\])\s*$", half)
            if m:
                rows.setdefault(m.group(1), []).append((m.group(2), m.group(3)))
    for i, f in enumerate(fields):
        mins = [r[i] for lev in levels for r in lev["mins"]]
        maxs = [r[i] for lev in levels for r in lev["maxs"]]
        got = rows.get(f, [])
        if len(got) != 1:
            v.append(f"menu min/max table has {len(got)} rows for field {f!r} (fields {fields}, options {case['opts']})")
            continue
        try:
            gmn, gmx = float(got[0][0]), float(got[0][1])
        except ValueError:
            v.append(f"menu min/max row of {f!r} is not numeric: {got[0]}")
            continue
        anynan = any(math.isnan(x) for x in mins + maxs)
        if anynan or not all(math.isfinite(x) for x in mins + maxs):
            nonfinite_x = True
        emn = [fmt3(np.min(mins))] + ([fmt3(np.nanmin(mins))] if anynan and not all(math.isnan(x) for x in mins) else [])
        emx = [fmt3(np.max(maxs))] + ([fmt3(np.nanmax(maxs))] if anynan and not all(math.isnan(x) for x in maxs) else [])
        if not any(_same(gmn, e) for e in emn) or not any(_same(gmx, e) for e in emx):
            v.append(f"menu min/max row of {f!r}: printed {got[0]}, header tables give min {emn} max {emx} "
                     f"({'finest level' if opts.get('finest_lv') else 'all levels'})")
    return nonfinite_x


def check_case(case, ctx):
    from amr_kitchen.menu.menu import Menu
    ctx.fresh()
    if "field_info" not in _ORIG:
        _ORIG["field_info"] = copy.deepcopy(Menu.field_info)
    Menu.field_info = copy.deepcopy(_ORIG["field_info"])       # the class-level table is mutated by every run
    plot = plotgen.Plot(case["spec"])
    pname = case.get("pname", "plt00100")
    plotgen.write(plot, pname)
    if "." in pname:
        ctx.label("dotted-directory-name")
    fields = plot.fields
    nf = plot.nf
    has_species = any(f.startswith("Y(") for f in fields)
    related = any(a != b and (a in b) for a in fields for b in fields) or any(re.search(r"[()\[\].+]", f) and not f.startswith("Y(") for f in fields)
    nonfinite_t = not math.isfinite(plot.time)
    opts = dict(case["opts"])
    ctx.label(f"{plot.ndims}D", "opts:" + ("+".join(sorted(opts)) or "default"), "odd" if nf % 2 else "even",
              "species" if has_species else "no-species")
    if related:
        ctx.label("related-names")
    v = []
    snap = snapshot(pname)
    check_minuterie(plot, v, pname)
    # ---- menu
    if opts.get("has_var"):
        opts["has_var"] = [KNOWN.get(fields[0], fields[0]), "not_a_field"]
    try:
        if case.get("cli", case["slash"]):
            # through the command line entry point (has_var is a comma separated string there)
            import amr_kitchen.menu.cli as mcli
            ctx.label("menu-cli")
            argv = ["menu", pname] + (["-m"] if opts.get("min_max") else []) + (["-f"] if opts.get("finest_lv") else []) \
                + (["-d"] if opts.get("description") else []) + (["-e"] if opts.get("every") else []) \
                + (["-hv", ", ".join(opts["has_var"])] if opts.get("has_var") else [])
            old = sys.argv
            sys.argv = argv
            try:
                out = capture(mcli.main)
            finally:
                sys.argv = old
        else:
            out = capture(Menu, pname, **opts)
    except BaseException as e:
        v.append(f"menu raised {type(e).__name__}: {e} (options {case['opts']}, fields {fields})")
        out = None
    classes = [KNOWN.get(f, f) for f in fields]
    nonfinite_x = False
    if out is not None and not any(opts.get(k) for k in ("min_max", "finest_lv", "has_var", "description", "every")):
        blocks = parse_blocks(out)
        fb = blocks.get("Fields found in file:")
        if fb is None:
            v.append(f"menu default listing has no 'Fields found in file' block: {out[:200]!r}")
        else:
            toks = " ".join(fb).split()
            exp = sorted(set(classes), key=str.lower)
            if sorted(toks) != sorted(exp):
                missing = [t for t in exp if toks.count(t) != 1]
                extra = [t for t in set(toks) if t not in exp]
                v.append(f"menu default listing does not name every header field exactly once: fields {fields} -> "
                         f"expected entries {exp}, listed {toks} (wrong count {missing}, unexpected {extra})")
        sb = blocks.get("Species found in file:")
        species = sorted(set(f[2:-1] for f in fields if f.startswith("Y(")))
        if species:
            stoks = " ".join(sb or []).split()
            if sorted(stoks) != species:
                v.append(f"menu species block lists {stoks}, header species are {species}")
        elif sb:
            v.append(f"menu lists species {sb} but the header has none")
    if out is not None and (opts.get("min_max") or opts.get("finest_lv")):
        nonfinite_x = check_minmax_table(out, pname, opts, fields, case, v) or nonfinite_x
    if out is not None and opts.get("description") and not opts.get("every"):
        tail = out[out.index("Fields found in file:"):] if "Fields found in file:" in out else ""
        names = [m.group(1) for m in (re.match(r"^(\S+)\s+:\s", l) for l in tail.split("\n")) if m]
        exp = sorted(set(classes))
        if sorted(n for n in names if n in exp) != exp:
            v.append(f"menu description table does not list every field entry exactly once: {names} vs {exp}")
    ctx.nontrivial((nf % 2 == 1 and nf >= 3) or not has_species or related or nonfinite_t or nonfinite_x)
    # ---- marinate (3D only: it builds the ghost map)
    if len(set(fields)) != len(fields):
        ctx.label("repeated-field-name (listings only)")
    elif plot.ndims == 3:
        import amr_kitchen.marinate as marinate
        from amr_kitchen import PlotfileCooker
        arg = pname + "/" if case["slash"] else pname
        before = set(os.listdir("."))
        old = sys.argv
        sys.argv = ["marinate", arg]
        try:
            capture(marinate.main)
        except BaseException as e:
            v.append(f"marinate raised {type(e).__name__}: {e}")
        finally:
            sys.argv = old
        d = snapshot_diff(snap, snapshot(pname))
        if d:
            v.append(f"marinate modified its input: {d[:3]}")
        # the documented name is <directory name>.pkl; for a dotted directory name any single new .pkl beside the input is accepted
        new = sorted(n for n in set(os.listdir(".")) - before if n.endswith(".pkl"))
        pkl = pname + ".pkl" if "." not in pname else (new[0] if len(new) == 1 else None)
        if pkl is None or not os.path.isfile(pkl):
            v.append(f"marinate did not write {pname}.pkl (or, for a dotted name, one new .pkl) beside the input (new: {new}, cwd: {sorted(os.listdir('.'))})")
        else:
            if "." in pname:
                # history: marinating a sibling whose name differs after the dot (another time stamp) must leave this pickle alone
                sib = pname.rsplit(".", 1)[0] + ".5x"
                s2 = dict(case["spec"], time=1.75)
                plotgen.write(plotgen.Plot(s2), sib)
                with open(pkl, "rb") as fh:
                    mine = fh.read()
                sys.argv = ["marinate", sib]
                try:
                    capture(marinate.main)
                except BaseException as e:
                    v.append(f"marinate raised {type(e).__name__}: {e} on the sibling {sib}")
                finally:
                    sys.argv = old
                with open(pkl, "rb") as fh:
                    if fh.read() != mine:
                        v.append(f"marinating {sib} overwrote {pkl}, the pickle written for {pname}")
            ctx.label("marinate")
            hist_after_marinate = True
            try:
                with open(pkl, "rb") as fh:
                    obj = pickle.load(fh)
                fresh = qcall(PlotfileCooker, arg, maxmins=True, ghost=True)
                for attr in ("fields", "ndims", "time", "limit_level", "max_level", "geo_low", "geo_high", "dx"):
                    a, b = getattr(obj, attr), getattr(fresh, attr)
                    if not (a == b or (attr == "time" and _same(a, b))):
                        v.append(f"marinated reader attribute {attr}: {a!r} != fresh reader {b!r}")
                if not all(np.array_equal(a, b) for a, b in zip(obj.grid_sizes, fresh.grid_sizes)):
                    v.append("marinated reader: grid_sizes differ")
                if obj.boxes != fresh.boxes:
                    v.append("marinated reader: boxes differ")
                for lv in range(fresh.limit_level + 1):
                    for key in ("indexes", "files", "offsets"):
                        if not np.array_equal(np.array(obj.cells[lv][key]), np.array(fresh.cells[lv][key])):
                            v.append(f"marinated reader: cells[{lv}][{key}] differ")
                    for key in ("mins", "maxs"):
                        a, b = obj.cells[lv].get(key), fresh.cells[lv].get(key)
                        if a is None or b is None or list(a) != list(b) or not all(
                                np.array_equal(np.asarray(a[f]), np.asarray(b[f]), equal_nan=True) for f in b):
                            v.append(f"marinated reader: per-box {key} of level {lv} differ from a fresh reader's")
                    for b in range(len(fresh.boxes[lv])):
                        if not refread.same_bits(qcall(lambda: obj[:][lv][b]), plot.box_data(lv, b)):
                            v.append(f"marinated reader: level {lv} box {b} does not read the stored data")
                            break
            except Exception as e:
                v.append(f"unpickled reader is unusable: {type(e).__name__}: {e}")
    if locals().get("hist_after_marinate") and not v:
        # history: the plotfile is rewritten under the same name after it was marinated (a restarted run); menu must show
        # the extrema of what is on disk now, not those of the pickle lying beside it
        import shutil
        shutil.rmtree(pname)
        plot2 = plotgen.Plot(dict(case["spec"], payload=dict(kind="random", seed=977)))
        plotgen.write(plot2, pname)
        try:
            out2 = capture(Menu, pname, min_max=True)
            check_minmax_table(out2, pname, dict(min_max=True), fields, case, v)
            if v:
                v[-1] += " [after the plotfile was rewritten; a pickle of the old one lies beside it]"
        except BaseException as e:
            v.append(f"menu raised {type(e).__name__}: {e} on the rewritten plotfile")
        if not v and locals().get("pkl") and "." not in pname:
            # ... and marinating it again gives a reader of what is on disk now (same mesh, other data and extrema)
            ctx.label("marinate-again-after-rewrite")
            old = sys.argv
            sys.argv = ["marinate", pname]
            try:
                capture(marinate.main)
                with open(pkl, "rb") as fh:
                    obj = pickle.load(fh)
                fresh = qcall(PlotfileCooker, pname, maxmins=True, ghost=True)
                for lv in range(fresh.limit_level + 1):
                    for key in ("mins", "maxs"):
                        a, b = obj.cells[lv].get(key), fresh.cells[lv].get(key)
                        if a is None or b is None or list(a) != list(b) or not all(
                                np.array_equal(np.asarray(a[f]), np.asarray(b[f]), equal_nan=True) for f in b):
                            v.append(f"marinated again after the plotfile was rewritten: per-box {key} of level {lv} are not those of the plotfile on disk")
                    for b in range(len(fresh.boxes[lv])):
                        if not refread.same_bits(qcall(lambda: obj[:][lv][b]), plot2.box_data(lv, b)):
                            v.append(f"marinated again after the plotfile was rewritten: level {lv} box {b} does not read the data on disk")
                            break
            except BaseException as e:
                v.append(f"marinating the rewritten plotfile again: {type(e).__name__}: {e}")
            finally:
                sys.argv = old
    return v
