"""C05 - colander output holds exactly the kept fields and levels, bit for bit."""
import os

from hypothesis import strategies as st

from .. import plotgen, refread
from ..harness import qcall
from . import common

ID = "C05"
LEVEL = "exploration"
BUDGET = {"quick": 4800, "thorough": 400000}
RULE = ("Hypothesis-generated 2D/3D plotfiles (1-3 nested levels, mixed box extents, boxes scattered over 1-4 "
        "binary files in any on-disk order, coded/random/special-float payloads (incl. values whose min/max text is 24 characters long), non-zero origins, anisotropic "
        "cells) x ordered variable selection (permuted subsets, unknown names, 'all') x level limit x output path "
        "form; oracle = independent reader + filter/reorder/truncate model, bit-exact, plus taste. "
        "Non-trivial = a field dropped or reordered, or a level dropped, or layout scattered/non-monotone; "
        "distinct = distinct case JSON.")
ASSUMPTIONS = ["refinement ratio 2 (hard-coded by every tool)", "in-process schedule-owning pool (identity order here; C12 varies it)"]

UNKNOWN = ["nope", "Temp", "temp ", "Y(XX)", "all"]        # 'all' beside other names is a name no field carries


@st.composite
def cases(draw, tier="quick"):
    spec = draw(plotgen.plot_specs(thin=True, many=True, level_prefix=True, max_cells=3000 if tier == "quick" else 12000, max_fields=6))
    nf = len(spec["fields"])
    if draw(st.sampled_from(["list"] * 9 + ["all"])) == "all":
        vars_ = "all"
    else:
        known = draw(st.lists(st.integers(0, nf - 1), min_size=1, max_size=nf, unique=True))
        vars_ = list(known)
        for _ in range(draw(st.sampled_from([0, 0, 0, 1, 2]))):
            vars_.insert(draw(st.integers(0, len(vars_))), nf + draw(st.integers(0, len(UNKNOWN) - 1)))
    limit = draw(st.one_of(st.none(), st.integers(0, spec["mesh"]["nlev"] - 1)))
    return dict(spec=spec, vars=vars_, limit=limit, abs_out=draw(st.booleans()),
                how=draw(st.sampled_from(["api", "api", "cli"])))


def compact(case):
    return dict(mesh=case["spec"]["mesh"], fields=case["spec"]["fields"], vars=case["vars"], limit=case["limit"])


def check_case(case, ctx):
    from amr_kitchen.colander import Colander
    root = ctx.fresh()
    plot = plotgen.Plot(case["spec"])
    from ..harness import VIAS, place_plotfile
    import zlib as _z, json as _j
    via = VIAS[_z.crc32(_j.dumps(case["spec"]["mesh"], sort_keys=True).encode()) % len(VIAS)]
    src = place_plotfile(lambda pth: plotgen.write(plot, pth), via)
    if via:
        ctx.label("path:" + via)
    names = plot.fields
    nf = plot.nf
    if case["vars"] == "all":
        variables = ["all"]
        kept = list(names)
    else:
        variables = [names[i] if i < nf else UNKNOWN[i - nf] for i in case["vars"]]
        kept = [v for v in variables if v in names]
        if variables == ["all"]:
            kept = list(names)
    fi = [names.index(n) for n in kept]
    limit = case["limit"]
    L = plot.nlev - 1 if limit is None else limit
    labs = plot.labels()
    ctx.label(*labs)
    ctx.label("vars=all" if case["vars"] == "all" else ("vars-with-unknown" if len(kept) < len(variables) else "vars-known"))
    ctx.nontrivial(fi != list(range(nf)) or L < plot.nlev - 1 or "scattered" in labs or "non-monotone" in labs)
    out = os.path.join(root, "out") if case["abs_out"] else "out"
    v = []
    ctx.label("how:" + case.get("how", "api"))
    import zlib as _z2
    if _z2.crc32(repr(case["vars"]).encode()) % 3 == 0:
        # second use: the output directory already holds an older, larger result (every field, every level)
        ctx.label("output-directory-holds-an-older-result")
        try:
            qcall(lambda: Colander(src, output=out, variables=["all"]).strain())
        except Exception as e:
            return [f"colander raised {type(e).__name__}: {e} (all fields, all levels)"]
    try:
        if case.get("how") == "cli":
            import amr_kitchen.colander.cli as cli
            argv = ["colander", src, "-v"] + variables + (["-l", str(limit)] if limit is not None else []) + ["-o", out]
            common.run_main(cli.main, argv)
        else:
            # (the names arrive as a list or, one time in three, as a tuple)
            as_tuple = (len(variables) + (limit or 0)) % 3 == 0
            if as_tuple:
                ctx.label("variables-as-tuple")
            c = qcall(Colander, src, limit_level=limit, output=out, variables=tuple(variables) if as_tuple else variables)
            qcall(c.strain)
    except Exception as e:
        return [f"colander raised {type(e).__name__}: {e} (via {case.get('how', 'api')})"]
    v += common.taste_accepts("out")
    a = refread.read_plotfile(src)
    common.check_spec_roundtrip(plot, a)      # harness self-check: reference reader agrees with the spec
    v += common.compare_output_to_model(a, "out", kept, fi, L)
    return v
