"""C01 - box data read through the indexing interface is exactly what is on disk."""
import numpy as np
from hypothesis import strategies as st

from .. import plotgen, refread
from ..harness import qcall
from . import common

ID = "C01"
LEVEL = "exploration"
BUDGET = {"quick": 3000, "thorough": 240000}
TECHNIQUE = "property-based testing: generated plotfiles x selector forms, bit-exact against the generator's payload"
RULE = ("Hypothesis-generated 2D/3D plotfiles (1-3 nested levels, mixed extents, scattered / non-monotone binary "
        "layouts, special-float payloads) x ~12 queries each: field selector (name, int, numpy int, name list, "
        "ascending / repeated / descending / negative int lists and arrays, slices with every start/stop/step "
        "sign, out-of-range, unknown) x level (0..limit; limit+1 and -(limit+2), -(limit+3) must raise; -1..-(limit+1) python-style under the either-rule) x box selector (int, negative, numpy int, "
        "slices, int lists/arrays incl. negative/repeated/int32, boolean masks as array/list, wrong-length mask, "
        "empty, out of range). Listed forms must return the exact 64-bit values; other forms must either raise "
        "Index arrays also come as int16 / int8 / uint8 / uint16 (the 8-bit ones with 130 or 300 entries) under the either-rule. or return exactly what numpy indexing semantics give. Non-trivial = >= 2 fields and (scattered or "
        "non-monotone layout or non-cubic box or a selection not starting at component 0).")
ASSUMPTIONS = ["refinement ratio 2", "in-process pool with identity schedule (C12/C15 vary it)"]


@st.composite
def field_selectors(draw, nf):
    k = draw(st.sampled_from(["name", "int", "slice", "list", "names", "array", "npint", "negint", "badint",
                              "unknown", "slice", "list"]))
    if k in ("name", "int", "npint"):
        return dict(k=k, i=draw(st.integers(0, nf - 1)))
    if k == "negint":
        return dict(k="int", i=draw(st.integers(-nf, -1)))
    if k == "badint":
        return dict(k="int", i=draw(st.sampled_from([nf, nf + 3, -nf - 1])))
    if k == "unknown":
        return dict(k="unknown")
    if k == "slice":
        ends = st.one_of(st.none(), st.integers(0, nf + 1), st.integers(-nf - 1, -1))
        return dict(k="slice", a=draw(ends), b=draw(ends), s=draw(st.sampled_from([None, 1, 2, 3, None, 1, -1, -2])))
    if k == "names":
        return dict(k="names", l=draw(st.lists(st.integers(0, nf - 1), min_size=1, max_size=nf, unique=True).map(sorted)))
    # list / array of ints
    mode = draw(st.sampled_from(["asc", "asc", "asc", "repeat", "desc", "neg", "oob", "any"]))
    if mode == "asc":
        l = sorted(draw(st.lists(st.integers(0, nf - 1), min_size=1, max_size=nf, unique=True)))
    elif mode == "repeat":
        l = sorted(draw(st.lists(st.integers(0, nf - 1), min_size=2, max_size=nf + 1)))
    elif mode == "desc":
        l = sorted(draw(st.lists(st.integers(0, nf - 1), min_size=2, max_size=max(2, nf), unique=nf >= 2)), reverse=True)
    elif mode == "neg":
        l = sorted(draw(st.lists(st.integers(-nf, -1), min_size=1, max_size=nf, unique=True)))
    elif mode == "oob":
        l = sorted(draw(st.lists(st.integers(0, nf - 1), max_size=nf - 1, unique=True))) + [nf + draw(st.integers(0, 2))]
    else:
        l = draw(st.lists(st.integers(-nf, nf - 1), min_size=1, max_size=nf + 1))
    return dict(k=k, l=l)


@st.composite
def box_selectors(draw, nb):
    k = draw(st.sampled_from(["int", "slice", "list", "mask", "array", "npint", "negint", "badint", "masklist",
                              "badmask", "empty", "int32", "slice", "list", "mask"]))
    if k in ("int", "npint"):
        return dict(k=k, i=draw(st.integers(0, nb - 1)))
    if k == "negint":
        return dict(k="int", i=draw(st.integers(-nb, -1)))
    if k == "badint":
        return dict(k="int", i=draw(st.sampled_from([nb, nb + 2, -nb - 1])))
    if k == "slice":
        ends = st.one_of(st.none(), st.integers(0, nb + 1), st.integers(-nb - 1, -1))
        return dict(k="slice", a=draw(ends), b=draw(ends), s=draw(st.sampled_from([None, 1, 2, -1, 3, -2])))
    if k in ("mask", "masklist"):
        return dict(k=k, m=draw(st.lists(st.booleans(), min_size=nb, max_size=nb)))
    if k == "badmask":
        return dict(k="mask", m=draw(st.lists(st.booleans(), min_size=nb + 1, max_size=nb + 2)))
    if k == "empty":
        return dict(k="list", l=[])
    mode = draw(st.sampled_from(["in", "in", "neg", "oob"]))
    if mode == "in":
        l = draw(st.lists(st.integers(0, nb - 1), min_size=1, max_size=min(nb + 2, 8)))
    elif mode == "neg":
        l = draw(st.lists(st.integers(-nb, nb - 1), min_size=1, max_size=min(nb + 2, 8)))
    else:
        l = draw(st.lists(st.integers(0, nb - 1), max_size=3)) + [nb + draw(st.integers(0, 2))]
    return dict(k=k, l=l)


@st.composite
def cases(draw, tier="quick"):
    spec = draw(plotgen.plot_specs(thin=True, many=True, level_prefix=True, max_cells=3000 if tier == "quick" else 10000, max_fields=7,
                                   payload_kinds=("special", "coded", "random")))
    if draw(st.integers(0, 2 ** 16)) % 4 == 1:
        # index space not starting at 0 (negative low indices are legal in AMReX, e.g. a domain centred on the origin)
        spec["index_shift"] = [draw(st.sampled_from([-1, -2, 0, 1, -3])) for _ in range(spec["mesh"]["ndims"])]
    plot = plotgen.Plot(spec)
    nf = plot.nf
    limit = draw(st.one_of(st.none(), st.integers(0, plot.nlev - 1)))
    L = plot.nlev - 1 if limit is None else limit
    queries = []
    for _ in range(draw(st.integers(6, 14))):
        # levels 0..L (the listed form); python-style negative levels -1..-(L+1) under the either-rule; L+1, -(L+2), -(L+3) must raise
        lv = draw(st.sampled_from(list(range(L + 1)) * 8 + [L + 1, -1] + list(range(-(L + 3), 0))))
        nb = len(plot.levels[min(max(lv, 0), plot.nlev - 1) if lv >= 0 else max(L + 1 + lv, 0)]["boxes"])
        queries.append(dict(f=draw(field_selectors(nf)), lv=lv, b=draw(box_selectors(nb))))
    from ..harness import VIAS
    return dict(spec=spec, limit=limit, queries=queries, via=VIAS[draw(st.integers(0, 2 ** 16)) % len(VIAS)])


def compact(case):
    return dict(mesh=case["spec"]["mesh"], nfields=len(case["spec"]["fields"]), limit=case["limit"],
                queries=case["queries"][:4])


def _mk_slice(q):
    return slice(q["a"], q["b"], q["s"])


def field_arg(q, names):
    """-> (python object passed to the reader, numpy-semantics index or None, must_form, single)"""
    k = q["k"]
    nf = len(names)
    if k == "name":
        return names[q["i"]], q["i"], True, True
    if k == "unknown":
        return "no_such_field", None, False, True
    if k == "int":
        return q["i"], q["i"], 0 <= q["i"] < nf, True
    if k == "npint":
        return np.int64(q["i"]), q["i"], False, True
    if k == "names":
        return [names[i] for i in q["l"]], list(q["l"]), True, False
    if k == "slice":
        s = _mk_slice(q)
        fwd = (s.step is None or s.step >= 1) and (s.start is None or s.start >= 0) and (s.stop is None or s.stop >= 0)
        nonempty = len(range(*s.indices(nf))) > 0
        return s, s, fwd and nonempty, False
    l = q["l"]
    strictly_asc = len(l) >= 1 and all(0 <= x < nf for x in l) and all(a < b for a, b in zip(l, l[1:]))
    if k == "array":
        return np.array(l, dtype=int), list(l), strictly_asc, False
    return list(l), list(l), strictly_asc, False


def box_arg(q, nb):
    """-> (object, numpy-semantics index, must_form, single)"""
    k = q["k"]
    if k == "int":
        return q["i"], q["i"], 0 <= q["i"] < nb, True
    if k == "npint":
        return np.int64(q["i"]), q["i"], 0 <= q["i"] < nb, True
    if k == "slice":
        s = _mk_slice(q)
        return s, s, True, False
    if k == "mask":
        return np.array(q["m"], dtype=bool), np.array(q["m"], dtype=bool), len(q["m"]) == nb, False
    if k == "masklist":
        return list(q["m"]), np.array(q["m"], dtype=bool), len(q["m"]) == nb, False
    l = q["l"]
    inrange = all(0 <= x < nb for x in l)
    if k == "array":
        return np.array(l, dtype=int), np.array(l, dtype=int), inrange and len(l) > 0, False
    if k == "int32":
        # index arrays of other integer types, as other libraries produce them; with the 8-bit types the selection is long
        # (the same boxes again and again, more entries than the type itself can count): the reader may refuse such an
        # array but never returns other boxes
        dt = [np.int32, np.int16, np.int8, np.uint8, np.int8, np.uint8, np.uint16][(sum(l) + len(l)) % 7]
        if l and (min(l) < 0 or max(l) > 127) and dt != np.int16:
            dt = np.int32
        if dt in (np.int8, np.uint8) and l and inrange:
            l = (list(l) * (300 // len(l) + 1))[:[130, 300][len(l) % 2]]
        return np.array(l, dtype=dt), np.array(l, dtype=int), False, False
    return list(l), np.array(l, dtype=int), inrange, False


def _compare(got, boxes, bsingle, plot, lv, exp_f, fsingle):
    gots = [got] if bsingle else got
    if not bsingle and not isinstance(gots, (list, tuple)):
        return f"expected a list of boxes, got {type(got).__name__}"
    if len(gots) != len(boxes):
        return f"returned {len(gots)} boxes, expected {len(boxes)}"
    for g, b in zip(gots, boxes):
        full = plot.box_data(lv, b)
        exp = full[..., int(exp_f)] if fsingle else full[..., exp_f]
        if not isinstance(g, np.ndarray) or g.dtype != np.float64 or not refread.same_bits(g, exp):
            return f"box {b} differs from the stored data (got shape {getattr(g, 'shape', None)}, expected {exp.shape})"
    return None


def check_case(case, ctx):
    from amr_kitchen import PlotfileCooker
    ctx.fresh()
    plot = plotgen.Plot(case["spec"])
    from ..harness import place_plotfile
    decoy = plotgen.Plot(dict(case["spec"], payload=dict(kind="random", seed=4242)))
    src = place_plotfile(lambda pth: plotgen.write(plot, pth), case.get("via"), lambda pth: plotgen.write(decoy, pth))
    if case.get("via"):
        ctx.label("path:" + case["via"])
    names = plot.fields
    nf = plot.nf
    limit = case["limit"]
    L = plot.nlev - 1 if limit is None else limit
    labs = plot.labels()
    ctx.label(*labs)
    if any(plot.shift0):
        ctx.label("shifted-index-space" + (" (negative)" if min(plot.shift0) < 0 else ""))
    noncubic_box = any(len(set(plot.box_shape(l, b))) > 1 for l in range(plot.nlev) for b in range(len(plot.levels[l]["boxes"])))
    shifted = any(plot.shift0)
    try:
        pck = qcall(PlotfileCooker, src, limit_level=limit)
    except Exception as e:
        if shifted:
            # an index space that does not start at 0 is legal AMReX but outside what the reader's metadata supports:
            # refusing it is fine, silently returning other data is not (checked below when it does open)
            ctx.label("shifted-index-space refused at open")
            return []
        return [f"opening a well-formed plotfile raised {type(e).__name__}: {e}"]
    v = []
    offset_sel = False
    for qi, q in enumerate(case["queries"]):
        fobj, fidx, fmust, fsingle = field_arg(q["f"], names)
        lv = q["lv"]
        # numpy-semantics expectation for the field selection
        try:
            exp_f = None if fidx is None else np.arange(nf)[fidx]
        except IndexError:
            exp_f = None
        lv_ok = -(L + 1) <= lv <= L
        lv_eff = L + 1 + lv if lv < 0 else lv
        lv_must = 0 <= lv <= L
        nb = len(plot.levels[lv_eff]["boxes"]) if lv_ok else 1
        bobj, bidx, bmust, bsingle = box_arg(q["b"], nb)
        try:
            exp_b = np.arange(nb)[bidx] if lv_ok else None
        except IndexError:
            exp_b = None
        honourable = exp_f is not None and exp_b is not None and lv_ok
        must = honourable and fmust and bmust and lv_must and not shifted
        ctx.label("q:must" if must else ("q:either" if honourable else "q:must-raise"))
        ctx.label("f:" + q["f"]["k"], "b:" + q["b"]["k"])
        if lv < 0:
            ctx.label("level:negative" + ("" if lv_ok else " (out of range)"))
        if exp_f is not None and np.size(exp_f) and int(np.min(exp_f)) > 0:
            offset_sel = True
        desc = f"query {qi} pck[{q['f']}][{lv}][{q['b']}]"
        stream = None
        try:
            stream = qcall(lambda: pck[fobj][lv])
            got = qcall(lambda: stream[bobj])
            raised = None
        except Exception as e:
            raised = e
        if raised is not None:
            if must:
                v.append(f"{desc}: a listed selector form raised {type(raised).__name__}: {raised}")
            continue
        if not honourable:
            v.append(f"{desc}: cannot be honoured (numpy indexing refuses it) but returned {type(got).__name__} instead of raising")
            continue
        boxes = [int(exp_b)] if bsingle else [int(x) for x in np.atleast_1d(exp_b)]
        msg = _compare(got, boxes, bsingle, plot, lv_eff, exp_f, fsingle)
        if msg:
            v.append(f"{desc}: {msg}")
            continue
        # history: the same level stream object keeps answering correctly (a plain box read, then the query again), also
        # after the caller has edited what it was given in place (the result is the caller's own copy)
        for arr in (got if isinstance(got, (list, tuple)) else [got]):
            if isinstance(arr, np.ndarray) and arr.flags.writeable and arr.dtype.kind == "f":
                arr *= 0.0
                arr += 12345.0
        try:
            first = qcall(lambda: stream[0])
            again = qcall(lambda: stream[bobj])
        except Exception as e:
            v.append(f"{desc}: re-reading through the same level object raised {type(e).__name__}: {e}")
            continue
        msg = _compare(first, [0], True, plot, lv_eff, exp_f, fsingle) or _compare(again, boxes, bsingle, plot, lv_eff, exp_f, fsingle)
        if msg:
            v.append(f"{desc}: second read through the same level object: {msg}")
    ctx.nontrivial(nf >= 2 and ("scattered" in labs or "non-monotone" in labs or noncubic_box or offset_sel))
    return v
